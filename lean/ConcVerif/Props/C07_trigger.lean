import ConcVerif.Proof.HBTrigger
/-! # C07 for TriggerVariable — publication through `triggered` / `activated`, at the level of the model

The model's event grammar has only seq_cst stores and acquire / seq_cst loads of the two flags (the
driver parses nothing weaker), so:

* `C07_trigger_edge`: in ANY sequence of model events, a store of a flag synchronises with every later
  load of it that reads from it (no store of that flag in between);
* `C07_trigger_reads`: in every trace ACCEPTED by `Trigger.step`, a load that returns a value different
  from the flag's initial value reads from a store of exactly that value, and that store
  happens-before the load — e.g. the load of `triggered = true` that ends `wait()` / `wait_for()` or is
  `isTriggered()` is ordered after the set-triggered store of a `trigger()` call;
* `C07_trigger_publication`: hence whatever the triggering (activating) thread did before its store
  happens-before whatever the waiting thread does after such a load — client data handed over through
  `trigger()` → `wait()` is not racy, also when the waiter never blocked.

Not stated here: a `wait()` that returns because the variable was INACTIVE has seen no trigger; nothing
is published to it (that is the specified behaviour, C11). -/
namespace ConcVerif.Trigger

/-- **A store of a flag synchronises with the later load that reads from it** (any event list). -/
theorem C07_trigger_edge (es : List (Tid × Ev)) {k l : Nat} {t r : Tid} {a : Side} {v v' : Bool} {o : Ord} (hkl : k < l)
    (hk : es[k]? = some (t, .st a v)) (hl : es[l]? = some (r, .ld a o v'))
    (hno : ∀ m w v'', k < m → m < l → es[m]? ≠ some (w, Ev.st a v'')) : HB.HB (hbTrace es) k l :=
  .sw (st_sw_ld es hkl hk hl hno)

/-- **A load that sees a non-initial value reads from a store of it, which happens-before the load**
(every accepted trace, any number of threads, spurious wake-ups and time-outs included). -/
theorem C07_trigger_reads {active : Bool} {es : List (Tid × Ev)} {s : St} (h : run active es = some s) {l : Nat} {r : Tid}
    {a : Side} {o : Ord} {v : Bool} (hl : es[l]? = some (r, .ld a o v)) (hv : v ≠ (init active).flag a) :
    ∃ k w, k < l ∧ es[k]? = some (w, Ev.st a v) ∧ (∀ m w' v', k < m → m < l → es[m]? ≠ some (w', Ev.st a v')) ∧
      HB.HB (hbTrace es) k l :=
  ld_reads_store h hl hv

/-- **Publication through trigger / wait.**  If thread `r` loads `triggered = true` at `l` (`triggered`
is initially false), there is a set-triggered store at some `k < l` by a thread `w` such that every
earlier event `i` of `w` happens-before every later event `j` of `r`. -/
theorem C07_trigger_publication {active : Bool} {es : List (Tid × Ev)} {s : St} (h : run active es = some s) {l : Nat}
    {r : Tid} {o : Ord} (hl : es[l]? = some (r, .ld .trig o true)) :
    ∃ k w, k < l ∧ es[k]? = some (w, Ev.st .trig true) ∧
      ∀ i j ei ej, i < k → l < j → es[i]? = some (w, ei) → es[j]? = some (r, ej) → HB.HB (hbTrace es) i j := by
  have hv : true ≠ (init active).flag .trig := by simp [init]
  obtain ⟨k, w, hkl, hk, _, hb⟩ := ld_reads_store h hl hv
  refine ⟨k, w, hkl, hk, ?_⟩
  intro i j ei ej hik hlj hi hj
  exact .trans (.po hik (hbTrace_get hi) (hbTrace_get hk)) (.trans hb (.po hlj (hbTrace_get hl) (hbTrace_get hj)))

/-- thread 2 triggers the (active) variable; thread 1 then calls `wait()`: it takes `triggerLock`, loads
`triggered = true` and returns without blocking -/
def hbWitness : List (Tid × Ev) :=
  [(2, .call .trigger), (2, .ld .act .sc true), (2, .mlk .trig), (2, .st .trig true), (2, .cna .trig), (2, .mul .trig),
   (2, .ret .trigger true),
   (1, .call .wait), (1, .ld .act .sc true), (1, .mlk .trig), (1, .ld .trig .sc true), (1, .mul .trig),
   (1, .ret .wait true)]

example : ∃ s, run true hbWitness = some s ∧ hbWitness[10]? = some (1, .ld .trig .sc true) ∧
    hbWitness[3]? = some (2, .st .trig true) :=
  ⟨_, rfl, rfl, rfl⟩

/-- the call of `trigger()` (0) happens-before the return of `wait()` (12) -/
example : HB.HB (hbTrace hbWitness) 0 12 := by
  obtain ⟨k, w, hkl, hk, hpub⟩ := C07_trigger_publication (active := true) (s := _) (es := hbWitness) (l := 10) (r := 1)
    (o := .sc) rfl rfl
  have hk3 : k = 3 ∧ w = 2 := by
    have : k < 10 := hkl
    match k, hk with
    | 3, hk => simp [hbWitness] at hk; exact ⟨rfl, hk.symm⟩
    | 0, hk | 1, hk | 2, hk | 4, hk | 5, hk | 6, hk | 7, hk | 8, hk | 9, hk => simp [hbWitness] at hk
    | n + 10, _ => omega
  obtain ⟨rfl, rfl⟩ := hk3
  exact hpub 0 12 _ _ (by decide) (by decide) rfl rfl

end ConcVerif.Trigger
