import ConcVerif.Proof.HBDObj
import ConcVerif.Proof.HBDObjPub
import ConcVerif.Proof.HBComplete
/-! # C07 for `DelayedObjects` — the four promise maps behind `promiseLock`, and the value handed to a future

Every statement is about EVERY trace `es` accepted by the `DelayedObjects` model (`DObj.run es = some s`: any
number of threads, any interleaving of `getFuture` / `setDelayedValue` / `fulfillAllPromises` / the queries /
the destructor, consumers observing futures), mapped to happens-before events:

* `hbTrace es` (stateless map `toHB`): `mlk` / `mul` = exclusive acquire / release of `promiseLock` (mutex 0);
  `acc` = plain access to one of the four `std::map` objects, counted as a WRITE of one location (plain
  location 0 — every two accesses conflict: the strongest reading); `got p _` = acquire load of the shared
  state of promise `p` (atomic location `p + 1`); `call`, `ret` and `pset` = `nop` (the model's `pset v` does
  not name its promise, so the stateless map drops the release: fewer edges, stronger race-freedom claim).
* `hbTraceP L es`: in addition the `j`-th `pset` event is the release store to the shared state of the promise
  of the `j`-th entry of the log `L`; with `L := s.sets` (the model's ghost log of `set_value` calls) this is
  the entry the event's own critical section logged (`C07_dobj_pset_entry`).  TRUSTED: `std::promise::set_value`
  synchronises with the `std::future::get` / `wait` that finds the state ready ([futures.state]), i.e. they are a
  release/acquire pair on the shared state.

What the model allows outside the lock: ONLY the destructor's accesses after its own critical section (member
destruction of the maps: `acc` at pc `unlocked dtor`).  The model's client obligation for the destructor
(`callOk`): it is called when no thread is inside any call, and no call is accepted afterwards.  For those
accesses the lockset discipline does not hold; what holds — and is proved — is that they happen after every
earlier access, through the destructor's own lock acquisition (`C07_dobj_maps`), and that nothing can follow
them in another thread (`C07_dobj_access`).  So EVERY accepted trace is race free (`C07_dobj_accepted`). -/
namespace ConcVerif.DObj

/-- **Mutex consistency.**  Every accepted trace, mapped to happens-before events, respects the semantics of
`promiseLock`: it is acquired only when nobody holds it and released only by its holder. -/
theorem C07_dobj_mutex {es : List (Tid × Ev)} {s : St} (h : run es = some s) : HB.MutexOK (hbTrace es) := by
  rw [hbTrace_eq]; exact (sim_run [] h).mok

/-- … and what the mapped trace says is held before any position `n` is exactly the model's `lock` field
there: thread `u` holds `promiseLock` (exclusively) iff `lock = some u`. -/
theorem C07_dobj_lock_mirror {es : List (Tid × Ev)} {s1 : St} {n : Nat} (h1 : run (es.take n) = some s1) (u : Tid) :
    HB.held ((hbTrace es).take n) u 0 = if s1.lock = some u then some .X else none := by
  rw [hbTrace_eq]; exact held_prefix [] h1 u

/-- **Every access to the maps is made holding `promiseLock` — or is the destructor's member destruction.**
For every `acc` at position `n` by thread `c` of an accepted trace: either `c` holds the lock exclusively at
`n`, or `c` is the registered closer and (`DtorAt es c n`) there are positions `k < l < n` where `c` called the
destructor (`k`) and took the lock (`l`), and after `k` no other thread did anything — in the WHOLE trace, also
after `n` — but observe futures (`got`). -/
theorem C07_dobj_access {es : List (Tid × Ev)} {s : St} (h : run es = some s) {n : Nat} {c : Tid}
    (hn : es[n]? = some (c, Ev.acc)) :
    HB.held ((hbTrace es).take n) c 0 = some .X ∨ (s.closer = some c ∧ DtorAt es c n) := by
  rw [hbTrace_eq]; exact (sim_run [] h).acc n c hn

/-- **Lockset, until the destructor is called.**  As long as the destructor has not been called (`closer = none`
in the state reached) every plain access of the trace is made holding `promiseLock` exclusively, so the generic
lockset theorem `C07_lockset` applies. -/
theorem C07_dobj_lockset {es : List (Tid × Ev)} {s : St} (h : run es = some s) (hc : s.closer = none) :
    HB.MutexOK (hbTrace es) ∧ HB.LockSet (hbTrace es) 0 0 := by
  rw [hbTrace_eq]; exact ⟨(sim_run [] h).mok, dobj_lockset [] h hc⟩

/-- **Conflicting map accesses are ordered.**  In every accepted trace — destructor included — each access to
the maps happens after every earlier one, even with all of them counted as writes.  For two accesses under the
lock this is the unlock → lock edge; for the destructor's member destruction it is
`access → unlock (that thread) → lock (destructor) → member destruction (program order)`. -/
theorem C07_dobj_maps {es : List (Tid × Ev)} {s : St} (h : run es = some s) {i j : Nat} (hij : i < j)
    (hc : HB.ConflictOn (hbTrace es) 0 i j) : HB.HB (hbTrace es) i j := by
  rw [hbTrace_eq] at hc ⊢; exact dobj_hb [] h hij hc

/-- the same in terms of the model's events: any two `acc` events of an accepted trace are ordered -/
theorem C07_dobj_acc_ordered {es : List (Tid × Ev)} {s : St} (h : run es = some s) {i j : Nat} {t u : Tid} (hij : i < j)
    (hi : es[i]? = some (t, Ev.acc)) (hj : es[j]? = some (u, Ev.acc)) : HB.HB (hbTrace es) i j := by
  rw [hbTrace_eq]
  exact dobj_hb [] h hij ⟨t, u, _, _, hbTraceP_get [] hi, hbTraceP_get [] hj, .inr rfl, .inr rfl, .inl rfl⟩

/-- **No data race**: no accepted trace contains two conflicting plain accesses unordered by happens-before. -/
theorem C07_dobj_no_race {es : List (Tid × Ev)} {s : St} (h : run es = some s) : ¬ HB.Race (hbTrace es) := by
  rw [hbTrace_eq]; exact dobj_no_race [] h

/-- **The executable race checker accepts every trace the model accepts**: a REJECT of the `hb` driver on a
`DelayedObjects` trace can only come with a rejection by the model. -/
theorem C07_dobj_accepted {es : List (Tid × Ev)} {s : St} (h : run es = some s) : HB.raceFree (hbTrace es) = true :=
  HB.raceFree_complete (C07_dobj_no_race h)

/-- All of the above also holds for the promise-aware mapping, whatever log `L` names the promises: the
promise edges are not needed for (and do not disturb) the protection of the maps. -/
theorem C07_dobj_promise_aware (L : List (Id × Val)) {es : List (Tid × Ev)} {s : St} (h : run es = some s) :
    HB.MutexOK (hbTraceP L es) ∧
    (∀ i j, i < j → HB.ConflictOn (hbTraceP L es) 0 i j → HB.HB (hbTraceP L es) i j) ∧
    HB.raceFree (hbTraceP L es) = true :=
  ⟨(sim_run L h).mok, fun _ _ hij hc => dobj_hb L h hij hc, HB.raceFree_complete (dobj_no_race L h)⟩

/-! ## the value passing from `set_value` to the consumer -/

/-- **Every `set_value` is made holding `promiseLock`.** -/
theorem C07_dobj_pset_locked {es : List (Tid × Ev)} {s : St} (h : run es = some s) {q : Nat} {t : Tid} {v : Val}
    (hq : es[q]? = some (t, Ev.pset v)) : HB.held ((hbTrace es).take q) t 0 = some .X := by
  rw [hbTrace_eq]; exact pset_locked [] h hq

/-- **Which promise a `set_value` event satisfies.**  The `set_value(v)` event at position `q` of an accepted
trace is matched with the entry number `psetCount (es.take q)` (= number of earlier `set_value` events) of the
model's log `s.sets`; that entry carries the same value `v` (it is one of the entries the event's own critical
section logged when it took the lock), and distinct events are matched with distinct promises (`s.sets` names
no promise twice: `C18_exactly_once_at_most`). -/
theorem C07_dobj_pset_entry {es : List (Tid × Ev)} {s : St} (h : run es = some s) {q : Nat} {t : Tid} {v : Val}
    (hq : es[q]? = some (t, Ev.pset v)) : ∃ p, s.sets[psetCount (es.take q)]? = some (p, v) :=
  pset_entry h hq

/-- **Publication through a promise** (partial: see below).  When a consumer finds future `p` ready with value
`v` (`got p (val v)` at position `g` of an accepted trace), then
* EITHER the `set_value(v)` event matched with promise `p` is at some `q < g` and HAPPENS-BEFORE `g` in the
  promise-aware trace — so does everything the setting thread did before it, and the consumer's read of the
  value is ordered after the construction of the value into the shared state;
* OR the thread that satisfies `p` holds `promiseLock`, is inside its critical section and still has a
  `set_value(v)` to perform.

What is missing (hence `_partial`): the second case.  The model changes the promise state at the
linearisation point (the `mlk`), not at the `pset` event, so it accepts a `got` between the lock acquisition and
the `set_value` event of the same critical section.  Real executions cannot produce such a trace (a future is
not ready before `set_value` returns), but the model does not exclude it; an unconditional "the promise set
happens-before the consumer's get" needs `got p` to be enabled by the `pset` event, i.e. a change of `step`
(`pset` would have to name its promise). -/
theorem C07_dobj_publication_partial {es : List (Tid × Ev)} {s : St} (h : run es = some s) {g : Nat} {u : Tid} {p : Id}
    {v : Val} (hg : es[g]? = some (u, Ev.got p (.val v))) :
    (∃ q t, q < g ∧ es[q]? = some (t, Ev.pset v) ∧ s.sets[psetCount (es.take q)]? = some (p, v) ∧
        HB.HB (hbTraceP s.sets es) q g) ∨
    (∃ s1 t o r td, run (es.take g) = some s1 ∧ s1.lock = some t ∧ s1.pc t = .locked o r td ∧ v ∈ td) :=
  got_published h hg

/-- … in particular, a value observed while nobody holds `promiseLock` was published: its `set_value`
happens-before the observation. -/
theorem C07_dobj_publication_unlocked {es : List (Tid × Ev)} {s s1 : St} (h : run es = some s) {g : Nat} {u : Tid}
    {p : Id} {v : Val} (hg : es[g]? = some (u, Ev.got p (.val v))) (h1 : run (es.take g) = some s1)
    (hl : s1.lock = none) :
    ∃ q t, q < g ∧ es[q]? = some (t, Ev.pset v) ∧ s.sets[psetCount (es.take q)]? = some (p, v) ∧
      HB.HB (hbTraceP s.sets es) q g := by
  rcases got_published h hg with h2 | ⟨s1', t, _, _, _, h1', hl', _⟩
  · exact h2
  · rw [h1] at h1'; injection h1' with h1'; subst h1'; rw [hl] at hl'; cases hl'

/-! ## non-vacuity -/

/-- thread 1 requests key 1 (promise 0) and touches the maps under the lock; thread 2 sets the value 5 (map
access and `set_value` under the lock); thread 1 reads its future; thread 0 destroys the container: critical
section, then member destruction of the maps WITHOUT the lock.
positions: 2 = access of thread 1, 7 = access of thread 2, 8 = `set_value`, 11 = the consumer's `got`,
12 / 13 = the destructor's call / lock, 15 = its unlocked access -/
def hbWitness : List (Tid × Ev) :=
  [(1, .call (.get (.i 1) 0)), (1, .mlk), (1, .acc), (1, .mul), (1, .ret (.get (.i 1) 0) .unit),
   (2, .call (.set (.i 1) 5 false)), (2, .mlk), (2, .acc), (2, .pset 5), (2, .mul), (2, .ret (.set (.i 1) 5 false) .unit),
   (1, .got 0 (.val 5)),
   (0, .call .dtor), (0, .mlk), (0, .mul), (0, .acc), (0, .ret .dtor .unit)]

/-- the trace is accepted and contains conflicting accesses by different threads: 1 / 2 under the lock, and
2 / the destructor's unlocked access -/
example : ∃ s, run hbWitness = some s ∧ HB.ConflictOn (hbTrace hbWitness) 0 2 7 ∧
    HB.ConflictOn (hbTrace hbWitness) 0 7 15 :=
  ⟨_, rfl, ⟨1, 2, _, _, rfl, rfl, .inr rfl, .inr rfl, .inl rfl⟩, ⟨2, 0, _, _, rfl, rfl, .inr rfl, .inr rfl, .inl rfl⟩⟩

/-- the ordering theorem applies to both pairs -/
example : HB.HB (hbTrace hbWitness) 2 7 ∧ HB.HB (hbTrace hbWitness) 7 15 :=
  ⟨C07_dobj_maps (s := _) (es := hbWitness) rfl (by decide) ⟨1, 2, _, _, rfl, rfl, .inr rfl, .inr rfl, .inl rfl⟩,
   C07_dobj_acc_ordered (s := _) (es := hbWitness) (t := 2) (u := 0) rfl (by decide) rfl rfl⟩

/-- the access at 15 is NOT under the lock: it is the destructor's case of `C07_dobj_access` -/
example : HB.held ((hbTrace hbWitness).take 15) 0 0 = none ∧ DtorAt hbWitness 0 15 := by
  refine ⟨by decide, ?_⟩
  rcases C07_dobj_access (s := _) (es := hbWitness) (n := 15) (c := 0) rfl rfl with h | h
  · exact absurd h (by decide)
  · exact h.2

/-- the lockset discipline holds for the part before the destructor's call -/
example : HB.LockSet (hbTrace (hbWitness.take 12)) 0 0 :=
  (C07_dobj_lockset (s := _) (es := hbWitness.take 12) rfl rfl).2

/-- the executable checker accepts the mapped trace, stateless and promise-aware -/
example : HB.raceFree (hbTrace hbWitness) = true := by decide
example : HB.raceFree (hbTraceP [(0, 5)] hbWitness) = true := by decide
example : HB.raceFree (hbTrace hbWitness) = true := C07_dobj_accepted (s := _) rfl

/-- without the destructor's own lock / unlock its member destruction would race: the checker rejects the
mapped trace with positions 13, 14 (`mlk`, `mul` of the destructor) removed -/
example : HB.raceFree (hbTrace (hbWitness.take 13 ++ hbWitness.drop 15)) = false := by decide

/-- the model rejects an access outside the lock by anything but the destructor, before or after the
critical section -/
example : run [(1, .call (.get (.i 1) 0)), (1, .acc)] = none := rfl
example : run [(1, .call (.get (.i 1) 0)), (1, .mlk), (1, .mul), (1, .acc)] = none := rfl

/-- publication: the theorem applies to the consumer's `got` at 11 — first case: a `set_value(5)` event matched
with promise 0 happens-before it in the promise-aware trace (the final log is `[(0, 5)]`) -/
example : ∃ q t, q < 11 ∧ hbWitness[q]? = some (t, Ev.pset 5) ∧ HB.HB (hbTraceP [(0, 5)] hbWitness) q 11 := by
  rcases C07_dobj_publication_partial (s := _) (es := hbWitness) (g := 11) (u := 1) (p := 0) (v := 5) rfl rfl with
    ⟨q, t, hq, hp, _, hb⟩ | ⟨s1, t, o, r, td, h1, hl, _⟩
  · exact ⟨q, t, hq, hp, hb⟩
  · exfalso
    have e : (run (hbWitness.take 11)).map (fun s => s.lock) = some none := rfl
    rw [h1] at e; simp at e; rw [hl] at e; cases e

/-- the edge by hand (positions 8 → 11): release store of the shared state of promise 0 (location 1) → acquire load -/
example : HB.HB (hbTraceP [(0, 5)] hbWitness) 8 11 :=
  .sw (.atomic (i := 8) (j := 11) (t := 2) (u := 1) (a := 1) (by decide) rfl rfl ⟨.rel, rfl, .inl rfl⟩ ⟨.acq, rfl, .inl rfl⟩
    (by intro k v o h1 h2 hk
        have : k = 9 ∨ k = 10 := by omega
        rcases this with rfl | rfl <;> cases hk))

/-- the second case of `C07_dobj_publication_partial` is reachable in the model: thread 3 observes future 0
ready with 5 after thread 2 took the lock for `setDelayedValue(1, 5)` but before its `set_value` event -/
example : ∃ s, run [(1, .call (.get (.i 1) 0)), (1, .mlk), (1, .mul), (1, .ret (.get (.i 1) 0) .unit),
    (2, .call (.set (.i 1) 5 false)), (2, .mlk), (3, .got 0 (.val 5))] = some s ∧
    s.pc 2 = .locked (.set (.i 1) 5 false) .unit [5] :=
  ⟨_, rfl, rfl⟩

end ConcVerif.DObj
