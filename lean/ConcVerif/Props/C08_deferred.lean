import ConcVerif.Props.C20_deferred
import ConcVerif.Props.C02_deferred
import ConcVerif.Proof.DeferredR
/-! # C08 (deferred_guarded part) — shared handles: non-null ⇔ lock obtained; tries never block; released once

`deferred_guarded` hands out only shared handles (`lock_shared`, `try_lock_shared`,
`try_lock_shared_for/until`).  Model: `Model/Deferred.lean`; pc `sAcq c` = before the shared
acquisition, `sGot ok` = acquisition done with outcome `ok`, `idle h` = at rest, `h` = owns a non-null
handle.  The lock-family half is `Props/C08.lean`. -/
namespace ConcVerif.Deferred

/-- The truth value of the returned handle (`got b`) is the outcome of the shared acquisition event,
and it is `true` exactly when the thread holds `m` shared. -/
theorem C08_deferred_truth_value {spur : Bool} {s s' : St} {t : Tid} {b : Bool} (h : Reachable spur s)
    (hs : step s t (.got b) = some s') : s.pc t = .sGot b ∧ s'.pc t = .idle b ∧ (b = true ↔ t ∈ s.sh) ∧ s'.sh = s.sh := by
  have hL := (inv_reachable h).L
  cases hp : s.pc t with
  | sGot ok =>
    simp [step, hp] at hs
    obtain ⟨hb, hs⟩ := hs
    subst hb; subst hs
    refine ⟨rfl, by simp [St.setPc], ?_, rfl⟩
    rw [hL.shP t, hp]; cases b <;> simp [Pc.holdsS]
  | idle hh => cases hh <;> simp [step, hp] at hs
  | _ => simp [step, hp] at hs

/-- … where `sGot ok` is reached only by the acquisition event itself, with `ok` its outcome
(`slk` always succeeds; `stl ok` / `stf ok` report `ok`), and a successful one adds the thread to the
shared holders while a failed one changes nothing. -/
theorem C08_deferred_outcome_recorded {s s' : St} {t : Tid} {e : Ev} {h : How} (hp : s.pc t = .sAcq (.acq h))
    (hs : step s t e = some s') :
    (e = .slk ∧ h = .block ∧ s'.pc t = .sGot true ∧ s'.sh = t :: s.sh) ∨
    (∃ ok, (e = .stl ok ∧ h = .try_ ∨ e = .stf ok ∧ (h = .for_ ∨ h = .until_)) ∧ s'.pc t = .sGot ok ∧
      s'.sh = if ok then t :: s.sh else s.sh) := by
  cases h <;> cases e <;> simp [step, hp, SCtx.granted] at hs
  · obtain ⟨_, hs⟩ := hs; subst hs; exact Or.inl ⟨rfl, rfl, by simp [St.setPc], rfl⟩
  all_goals
    rename_i ok
    right; refine ⟨ok, by simp, ?_⟩
    cases ok <;> simp at hs
    · subst hs; simp [St.setPc]
    · obtain ⟨_, hs⟩ := hs; subst hs; simp [St.setPc]

/-- The try / timed forms never perform a blocking acquisition of `m`: at their acquisition point only
the try (`stl`) resp. timed (`stf`) event is accepted, and its failing outcome is enabled in every
global state — whoever holds `m`, the call can proceed.  (The drain attempt before it uses only the
exclusive try-lock `mtl`, see `C08_deferred_drain_only_tries`.) -/
theorem C08_deferred_try_never_blocks {s : St} {t : Tid} {h : How} (hp : s.pc t = .sAcq (.acq h)) (hh : h ≠ .block) :
    (h = .try_ → (step s t (.stl false)).isSome = true) ∧
    (h ≠ .try_ → (step s t (.stf false)).isSome = true) ∧ step s t .slk = none := by
  cases h <;> simp [step, hp] at hh ⊢

/-- `do_pending_writes` (run first by every shared acquisition, blocking or not) touches `m` only by an
exclusive TRY-lock, one of whose outcomes is always enabled.  What can delay a try / timed form is
therefore only the drain it may win: the functions of the queued tasks, and the queue mutex `qm`, which
is blocking but only ever held across one push or one swap — its holder is always enabled to release. -/
theorem C08_deferred_drain_only_tries {spur : Bool} {s : St} {t : Tid} (h : Reachable spur s) :
    (∀ c, s.pc t = .sTry c → (∀ e s', step s t e = some s' → ∃ ok, e = .mtl ok) ∧
      ((step s t (.mtl true)).isSome = true ∨ (step s t (.mtl false)).isSome = true)) ∧
    (s.qm = some t → (step s t .qul).isSome = true) := by
  have hI := inv_reachable h
  constructor
  · intro c hp
    constructor
    · intro e s' hs
      cases e <;> simp [step, hp] at hs
      exact ⟨_, rfl⟩
    · by_cases hf : s.mx = none ∧ s.sh = []
      · left; simp [step, hp, St.tryX, hf.1, hf.2]
      · right
        have : s.mx ≠ none ∨ s.sh ≠ [] := by
          by_cases hm : s.mx = none
          · exact Or.inr (fun hs => hf ⟨hm, hs⟩)
          · exact Or.inl hm
        rcases this with hm | hsh
        · simp [step, hp, St.tryX, hm]
        · simp [step, hp, St.tryX, hsh]
  · intro hq
    have hQ := (hI.L.qmP t).1 hq
    cases hp : s.pc t with
    | qPush k a => simp [step, hp, hq]
    | dSwap c =>
      have hb : s.batch = [] := by
        have hm := (hI.L.mxP t).2 (by simp [hp, Pc.holdsX])
        exact hI.C.no_batch_unless (t := t) (Or.inr ⟨hm, by simp [hp, Pc.runs]⟩)
      simp [step, hp, hq, hb]
    | _ => simp [hp, Pc.holdsQ] at hQ

/-- A non-null handle keeps the lock until it is released: its owner holds `m` shared, nobody holds `m`
exclusively, steps of other threads do not change that, and the owner's own steps keep it until `sul`. -/
theorem C08_deferred_handle_keeps_lock {spur : Bool} {s s' : St} {t u : Tid} {e : Ev} (h : Reachable spur s)
    (hp : s.pc t = .idle true) (hs : step s u e = some s') :
    t ∈ s.sh ∧ s.mx = none ∧ (e = .sul ∧ u = t ∨ (s'.pc t = .idle true ∧ t ∈ s'.sh)) := by
  have hL := (inv_reachable h).L
  have hin : t ∈ s.sh := (hL.shP t).2 (by simp [hp, Pc.holdsS])
  have hmx := (C02_deferred_rw_excl h (u := t) (by simp [hp, Pc.holdsS]) t).2.2
  have hL' := (inv_reachable (h.step hs)).L
  refine ⟨hin, hmx, ?_⟩
  by_cases hut : u = t
  · subst hut
    cases e <;> simp [step, hp] at hs
    · exact Or.inl ⟨rfl, rfl⟩
    all_goals
      right
      obtain ⟨_, hs⟩ := hs
      subst hs
      exact ⟨hp, hin⟩
  · right
    have hpc : s'.pc t = .idle true := by
      rw [(step_sound hs).pc_other (fun h => hut h.symm)]; exact hp
    exact ⟨hpc, (hL'.shP t).2 (by simp [hpc, Pc.holdsS])⟩

/-- … and it is released exactly once: the release event leaves the thread at rest without handle,
no longer a shared holder, and there no further release is accepted. -/
theorem C08_deferred_released_once {spur : Bool} {s s' : St} {t : Tid} (h : Reachable spur s)
    (hp : s.pc t = .idle true) (hs : step s t .sul = some s') :
    s'.pc t = .idle false ∧ t ∉ s'.sh ∧ step s' t .sul = none := by
  have hL' := (inv_reachable (h.step hs)).L
  simp [step, hp] at hs
  obtain ⟨_, hs⟩ := hs
  have hpc : s'.pc t = .idle false := by subst hs; simp [St.setPc]
  refine ⟨hpc, ?_, by simp [step, hpc]⟩
  intro hin; have := (hL'.shP t).1 hin; simp [hpc, Pc.holdsS] at this

/-- Nothing is held after a null result (and no release is due). -/
theorem C08_deferred_null_holds_nothing {spur : Bool} {s s' : St} {t : Tid} (h : Reachable spur s)
    (hs : step s t (.got false) = some s') :
    s'.pc t = .idle false ∧ t ∉ s'.sh ∧ s'.mx ≠ some t ∧ s'.qm ≠ some t ∧ step s' t .sul = none := by
  have hpc := (C08_deferred_truth_value h hs).2.1
  have hr := C20_deferred_rest_holds_nothing (h.step hs) hpc
  exact ⟨hpc, fun hin => by simpa using hr.2.2.1 hin, hr.1, hr.2.1, by simp [step, hpc]⟩

/-! Non-vacuity: `try_lock_shared_for` fails while a writer is inside its function (null handle, nothing
held), `try_lock_shared` succeeds afterwards (non-null, shared holder), released once. -/
example : ∃ s, Reachable false s ∧ s.pc 2 = .idle false ∧ s.pc 3 = .idle true ∧ s.sh = [3] ∧ s.pc 1 = .idle false :=
  ⟨_, ⟨[(1, .callMod 1 false), (1, .mtl true), (1, .fld false), (1, .ucb 1),
        (2, .callSh .for_), (2, .fld false), (2, .stf false), (2, .got false),
        (1, .prd 0), (1, .pwr 1), (1, .uce 1 1), (1, .mul), (1, .ret),
        (3, .callSh .try_), (3, .fld false), (3, .stl true), (3, .got true), (3, .prd 1),
        (2, .callSh .block), (2, .fld false), (2, .slk), (2, .got true), (2, .sul)], rfl⟩, rfl, rfl, rfl, rfl⟩

end ConcVerif.Deferred
