import ConcVerif.Proof.CowFrame
import ConcVerif.Props.C14_lr
/-! # C14, cow_guarded part — `lock_shared` and its try forms never wait for a writer

A `lock_shared` form of cow_guarded is a left-right read acquisition (`ald cl ; rmw cnt +1 ; ald rl`), the copy of the
`shared_ptr` stored in the side the read handle points to (two plain loads and one reference increment) and the
left-right release (`rmw cnt -1`): seven events of the calling thread.  Theorems over `Model/Cow.lean` (every
`Reachable` state: any number of threads, writers suspended anywhere — inside `lock()`, inside the publication, inside
either wait loop, inside `cancel()`):
(1) in every reachable state the thread's next event is enabled, whatever all other threads' pcs are;
(2) no mutex, yield or spin event is ever accepted inside a `lock_shared` form;
(3) each own step decreases the number of steps left (at most 7) by one, steps of other threads do not change it;
and for the writer: (4) `lock()` waits only for the writer mutex; (5) `m_data`'s own write mutex is never contended;
(6) the publication's wait loops are the left-right model's (so `Props/C14_lr.lean` applies to `s.lr`): a counter with
nobody registered is observed at zero and the second application is enabled once both were; (7) only threads INSIDE a
`lock_shared` form or inside the read phase of `lock()` are registered in a counter — a snapshot handle kept by a client
never delays a writer. -/
namespace ConcVerif.Cow
open ConcVerif.LR (Side lk LK)

macro "cow_unfold14 " hs:ident : tactic => `(tactic|
  simp [stepIdle, stepRdA, stepRdH, stepRdP, stepRdD, stepDr, stepLkCalled, stepLkA, stepLkH, stepLkC, stepLkD, stepLkT,
    stepLkTD, stepLkExc, stepWHold, stepRelA, stepRelB, stepRelC, stepRelU, stepCn] at $hs:ident)

/-- pcs inside `lock_shared` / `try_lock_shared` / `_for` / `_until` -/
def Pc.inShared : Pc → Bool
  | .rdA _ | .rdH _ _ | .rdP _ _ | .rdD _ _ => true
  | _ => false

/-- own steps left until the current `lock_shared` form returns -/
def rdLeft : Pc → LR.Pc → Nat
  | .rdA _, .rdCalled => 7
  | .rdA _, .rdCL _ => 6
  | .rdA _, .rdInc _ => 5
  | .rdH _ none, _ => 4
  | .rdH _ (some _), _ => 3
  | .rdP _ _, _ => 2
  | .rdD _ _, _ => 1
  | _, _ => 0

theorem lk_pre {p : LR.Pc} (h : lk p = .pre) : p = .rdCalled ∨ (∃ c, p = .rdCL c) ∨ ∃ c, p = .rdInc c := by
  cases p <;> simp [lk] at h <;> simp

/-- (1) Wait-free: a thread inside a `lock_shared` form has an enabled event in every reachable state — it never waits
for any other thread, wherever the writers are. -/
theorem C14_cow_reader_enabled {s : St} (h : Reachable s) {t : Tid} (hp : (s.pc t).inShared = true) :
    ∃ e, (step s t e).isSome = true := by
  have hi := inv_reachable h
  have hl := hi.l.link t
  cases hq : s.pc t <;> rw [hq] at hp hl <;> simp [Pc.inShared] at hp
  case rdA k =>
    rcases lk_pre hl with h1 | ⟨c, h1⟩ | ⟨c, h1⟩
    · exact ⟨.lr (.ldCL s.lr.cl), by simp [step, hq, stepRdA, LR.step, h1]⟩
    · exact ⟨.lr (.inc c (s.lr.reg c).length), by simp [step, hq, stepRdA, LR.step, h1]⟩
    · exact ⟨.lr (.ldRL s.lr.rl), by simp [step, hq, stepRdA, lrGot, LR.step, h1]⟩
  case rdH k g =>
    obtain ⟨c, x, h1⟩ := LR.lk_hold hl
    cases g with
    | none => exact ⟨.ldPtr x (s.sv x), by simp [step, hq, stepRdH, lrRd, LR.step, h1]⟩
    | some v => exact ⟨.ldCtl x, by simp [step, hq, stepRdH, lrRd, LR.step, h1]⟩
  case rdP k v =>
    obtain ⟨c, x, h1⟩ := LR.lk_hold hl
    exact ⟨.lr (.dec c (s.lr.reg c).length), by simp [step, hq, stepRdP, lrRel, LR.step, h1]⟩
  case rdD k v =>
    exact ⟨.retGot (.lockShared k) v, by simp [step, hq, stepRdD]⟩

/-- (2) No blocking operation inside a `lock_shared` form: the model accepts no operation on either mutex, no yield and
no counter load (spin) from these pcs — a change that makes readers take a mutex or wait is rejected by `step`. -/
theorem C14_cow_reader_never_blocks (s : St) (t : Tid) (hp : (s.pc t).inShared = true) :
    step s t .olock = none ∧ step s t .ounlock = none ∧ step s t (.lr .lock) = none ∧ step s t (.lr .unlock) = none ∧
      step s t (.lr .yld) = none ∧ ∀ c v, step s t (.lr (.ldCnt c v)) = none := by
  cases hq : s.pc t <;> rw [hq] at hp <;> simp [Pc.inShared] at hp <;>
    simp [step, hq, stepRdA, stepRdH, stepRdP, stepRdD]

/-- (3) Bounded: every own step inside a `lock_shared` form decreases the number of steps left by exactly one; the call
takes 7 steps of the calling thread. -/
theorem C14_cow_reader_bounded {s s' : St} (h : Reachable s) {t : Tid} {e : Ev} (hp : (s.pc t).inShared = true)
    (hs : step s t e = some s') : rdLeft (s'.pc t) (s'.lr.pc t) + 1 = rdLeft (s.pc t) (s.lr.pc t) := by
  have hi := inv_reachable h
  have hl := hi.l.link t
  cases hq : s.pc t <;> rw [hq] at hp hl <;> simp [Pc.inShared] at hp <;> simp only [step, hq] at hs
  case rdA k =>
    cases e <;> (try (simp [stepRdA] at hs; done))
    rename_i e'
    cases e' <;> simp [stepRdA] at hs
    · obtain ⟨l, h1, rfl⟩ := hs
      obtain ⟨a, b⟩ := LR.step_pre_ldCL_exact hl h1
      simp [rdLeft, a, b]
    · obtain ⟨l, h1, rfl⟩ := hs
      obtain ⟨c, a, b⟩ := LR.lrGot_exact hl h1
      simp [rdLeft, a]
    · obtain ⟨l, h1, rfl⟩ := hs
      obtain ⟨a, b⟩ := LR.step_pre_inc_exact hl h1
      simp [rdLeft, a, b]
  case rdH k g =>
    cases e <;> (try (simp [stepRdH] at hs; done))
    · simp [stepRdH] at hs
      obtain ⟨⟨rfl, _⟩, l, _, rfl⟩ := hs
      simp [rdLeft]
    · cases g with
      | none => simp [stepRdH] at hs
      | some v =>
        simp [stepRdH] at hs
        obtain ⟨l, _, rfl⟩ := hs
        simp [rdLeft]
  case rdP k v =>
    cases e <;> (try (simp [stepRdP] at hs; done))
    rename_i e'
    cases e' <;> simp [stepRdP] at hs
    obtain ⟨l, _, rfl⟩ := hs
    simp [rdLeft]
  case rdD k v =>
    cases e <;> (try (simp [stepRdD] at hs; done))
    rename_i c v'
    cases c <;> simp [stepRdD] at hs
    obtain ⟨_, rfl⟩ := hs
    simp [rdLeft]

theorem C14_cow_reader_at_most_7 (p : Pc) (q : LR.Pc) : rdLeft p q ≤ 7 := by
  unfold rdLeft; split <;> simp

/-- ... and steps of other threads do not change it: the reader's position is its own. -/
theorem C14_cow_reader_undisturbed {s s' : St} {t u : Tid} {e : Ev} (hs : step s u e = some s') (hu : t ≠ u) :
    rdLeft (s'.pc t) (s'.lr.pc t) = rdLeft (s.pc t) (s.lr.pc t) := by
  have hf := frame_step hs
  rw [hf.other t hu, hf.star.pc_other hu]

/-! ## writers: delayed only by the writer mutex and by readers inside an acquisition -/

/-- (4) `lock()` waits for the writer mutex and for nothing else: as soon as nobody owns it, `mlk wm` is enabled ... -/
theorem C14_cow_lock_enabled {s : St} (h : Reachable s) {t : Tid} (hp : s.pc t = .lkCalled) (hw : s.wm = none) :
    (step s t .olock).isSome = true := by
  have hi := inv_reachable h
  have hl : s.lr.pc t = .idle := LR.lk_idle (by rw [hi.l.link t, hp]; rfl)
  simp [step, hp, stepLkCalled, hw, LR.step, hl]

/-- ... and while it is not enabled, some thread owns the mutex and is between `lock()` and release / cancel. -/
theorem C14_cow_lock_waits_for_owner {s : St} (h : Reachable s) {t : Tid} (hp : s.pc t = .lkCalled)
    (hb : step s t .olock = none) : ∃ u, s.wm = some u ∧ (s.pc u).holds = true := by
  cases hw : s.wm with
  | none => have := C14_cow_lock_enabled h hp hw; rw [hb] at this; cases this
  | some u => exact ⟨u, rfl, ((inv_reachable h).l.wmh u).mpr hw⟩

/-- (5) `m_data`'s own write mutex is never contended: the publishing thread owns `wm`, so when it asks for the inner
mutex nobody holds it. -/
theorem C14_cow_inner_mutex_uncontended {s : St} (h : Reachable s) {t : Tid} {v : Ver} (hp : s.pc t = .relA v)
    (hq : s.lr.pc t = .wCalled v) : s.lr.mtx = none ∧ (step s t (.lr .lock)).isSome = true := by
  have hi := inv_reachable h
  have hw : s.wm = some t := (hi.l.wmh t).mp (by rw [hp]; rfl)
  have hm := quiet_of_holder hi.l hw (by rw [hq]; rfl)
  exact ⟨hm, by simp [step, hp, stepRelA, LR.step, hq, hm]⟩

/-- (6) The wait loops of the publication are the left-right model's: inside `relB` every load / yield / counting-flag
store is accepted exactly when `LR.step` accepts it on the embedded state (which is a reachable LR state), so
`C14_lr_writer_sees_zero`, `C14_lr_spin_enabled`, `C14_lr_wait_closed` … speak about cow_guarded's writer too. -/
theorem C14_cow_wait_is_lr {s : St} {t : Tid} {v : Ver} {f : Bool} {e : LR.Ev} (hp : s.pc t = .relB v f)
    (hn : neutral e = true) : (step s t (.lr e)).isSome = (LR.step s.lr t e).isSome := by
  cases e <;> simp [neutral] at hn <;> simp [step, hp, stepRelB, neutral]

theorem C14_cow_lr_reachable {s : St} (h : Reachable s) : LR.Reachable s.lr := (inv_reachable h).l.reach

/-- A counter in which nobody is registered is observed at zero (the only value the model accepts) ... -/
theorem C14_cow_wait_sees_zero {s : St} (h : Reachable s) {t : Tid} {v : Ver} {f : Bool} {l c : Side} {zL zR : Bool}
    (hp : s.pc t = .relB v f) (hq : s.lr.pc t = .wWait v l zL zR) (hnone : ∀ u, (s.lr.pc u).regIn ≠ some c) :
    (step s t (.lr (.ldCnt c 0))).isSome = true ∧ ∀ n, n ≠ 0 → step s t (.lr (.ldCnt c n)) = none := by
  obtain ⟨h1, h2⟩ := LR.C14_lr_writer_sees_zero (C14_cow_lr_reachable h) hq hnone
  constructor
  · rw [C14_cow_wait_is_lr hp rfl, h1]; rfl
  · intro n hn
    have := C14_cow_wait_is_lr (s := s) (t := t) hp (e := .ldCnt c n) rfl
    rw [h2 n hn] at this
    cases hst : step s t (.lr (.ldCnt c n)) with
    | none => rfl
    | some x => rw [hst] at this; cases this

/-- ... and once both counters have been seen empty the second application (the assignment window on the old side) is
enabled: the writer leaves the wait loops. -/
theorem C14_cow_wait_exits {s : St} {t : Tid} {v : Ver} {f : Bool} {l : Side} (hp : s.pc t = .relB v f)
    (hq : s.lr.pc t = .wWait v l true true) : (step s t (.stPtr l v)).isSome = true := by
  simp [step, hp, stepRelB, LR.C14_lr_writer_exits s.lr t v l hq]

/-- (7) Who can keep a counter non-zero: only a thread INSIDE a `lock_shared` form or inside the read phase of `lock()`
(between its increment and its decrement).  A snapshot handle owned by a client — however long it is kept — is not
registered anywhere and never delays a writer. -/
theorem C14_cow_registered_inside {s : St} (h : Reachable s) {u : Tid} {c : Side} (hu : u ∈ s.lr.reg c) :
    (s.pc u).cls = .pre ∨ (s.pc u).cls = .hold := by
  have hi := inv_reachable h
  have hreg := (hi.l.full.inv.mem u c).mp hu
  have hl := hi.l.link u
  cases hq : s.lr.pc u <;> rw [hq] at hreg hl <;> simp [LR.Pc.regIn] at hreg <;> simp [lk] at hl
  · exact Or.inl hl.symm
  · exact absurd hl.symm (cls_ne_other _)
  · exact Or.inr hl.symm
  · exact absurd hl.symm (cls_ne_other _)

theorem C14_cow_snapshot_holder_not_registered {s : St} (h : Reachable s) {u : Tid} (hp : s.pc u = .idle) (c : Side) :
    u ∉ s.lr.reg c := by
  intro hu
  rcases C14_cow_registered_inside h hu with h1 | h1 <;> rw [hp] at h1 <;> cases h1

/-! ## non-vacuity: a reader completes while the writer is suspended inside its second wait loop -/

/-- thread 1 is inside `lock_shared` (registered in counter L, handle on side L); thread 2 has locked, copied, written,
started its release, flipped `m_readingLeft`, and spins on counter L (`ald lc` = 1, `yld`) -/
def exWait : List (Tid × Ev) :=
  [(1, .call (.lockShared 0)), (1, .lr (.ldCL .L)), (1, .lr (.inc .L 0)), (1, .lr (.ldRL .L)),
   (2, .call .lock), (2, .olock), (2, .lr (.ldCL .L)), (2, .lr (.inc .L 1)), (2, .lr (.ldRL .L)), (2, .ldPtr .L 0),
   (2, .pcp 1 0 0), (2, .lr (.dec .L 2)), (2, .retGot .lock 1), (2, .pwr 1 1), (2, .call .release), (2, .lr .lock),
   (2, .lr (.ldRL .L)), (2, .stPtr .R 1), (2, .ldCtl .R), (2, .ldCtl .R), (2, .stCtl .R), (2, .lr (.stRL .R)),
   (2, .lr (.ldCL .L)), (2, .lr (.ldCnt .R 0)), (2, .lr (.stCL .R)), (2, .lr (.ldCnt .L 1)), (2, .lr .yld)]

example : ∃ s, run (init true) exWait = some s ∧ (s.pc 1).inShared = true ∧ s.pc 1 = .rdH 0 none ∧ s.pc 2 = .relB 1 true ∧
    s.lr.pc 2 = .wWait 1 .L false true ∧ rdLeft (s.pc 1) (s.lr.pc 1) = 4 ∧ 1 ∈ s.lr.reg .L :=
  ⟨_, rfl, rfl, rfl, rfl, rfl, rfl, by decide⟩

/-- ... the reader finishes alone (4 steps), version 0 in hand, while the writer stays where it is; then the writer sees
the counter at zero and opens its second window -/
example : ∃ s, run (init true) (exWait ++ [(1, .ldPtr .L 0), (1, .ldCtl .L), (1, .lr (.dec .L 1)), (1, .retGot (.lockShared 0) 0),
    (2, .lr (.ldCnt .L 0)), (2, .stPtr .L 1)]) = some s ∧ s.pc 1 = .idle ∧ (1, 0) ∈ s.snaps ∧ s.det = some .L :=
  ⟨_, rfl, rfl, by decide, rfl⟩

/-- a second writer waits for the writer mutex only: `mlk wm` is rejected while thread 2 owns it -/
example : ∃ s s1, run (init true) exWait = some s ∧ step s 3 (.call .lock) = some s1 ∧ step s1 3 .olock = none ∧
    s1.wm = some 2 := ⟨_, _, rfl, rfl, rfl, rfl⟩

end ConcVerif.Cow
