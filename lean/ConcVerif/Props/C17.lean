import ConcVerif.Proof.SOH
import ConcVerif.Proof.SOHLive
/-! # C17 — SearchableObjectHolder is an atomic, memory-safe name-to-object map

Model: `Model/SOH.lean`.  `Maps` mirrors the two `std::map`s of the class (association lists with
strictly ascending keys), `apply` is the sequential specification (one case per public method),
`step` is the concurrent layer: every call is one critical section of `mapLock`, the specification
is applied at the lock acquisition, `ret` must carry the specification's result.

Part 1 — what the specification says (for all well-formed maps and all arguments);
Part 2 — every concurrent execution is linearizable w.r.t. that specification, with mutual
         exclusion, no leaked lock, and no deadlock;
Part 3 — an object handed to a caller stays alive while the caller holds it.

The clause "every operation is memory-safe for every sequence of calls" concerns node lifetimes
inside `std::map`, which `Maps` does not represent: it is covered by the tie only (ASan/UBSan builds
of the same runs), see the `partial` entry of the registry. -/
namespace ConcVerif.SOH

/-! ## Part 1 — map semantics of the specification -/

/-- every operation keeps both maps sorted with unique keys (the `std::map` invariant) -/
theorem C17_wf_preserved {m : Maps} (h : WF m) (op : Op) : WF (apply m op).1 := apply_wf h op

/-- a stored name has exactly one object: `lookup` is membership -/
theorem C17_lookup_iff_mem {m : Maps} (h : WF m) (n : Name) (k : ObjId) :
    lookup n m.objs = some k ↔ (n, k) ∈ m.objs :=
  ⟨lookup_some_mem, mem_lookup h.1⟩

/-- `addObject` (both forms) on an existing name returns false and changes nothing — it never replaces -/
theorem C17_add_refuses_dup {m : Maps} (h : WF m) {n : Name} {j : ObjId} (hn : lookup n m.objs = some j)
    (k : ObjId) (ty : Ty) :
    apply m (.add n k) = (m, .bool false) ∧ apply m (.addT n k ty) = (m, .bool false) := by
  have := emplace_present (v := k) h.1 hn
  constructor <;> simp [apply, hn, this]

/-- `addObject(name, obj)` on a new name returns true and stores exactly that binding; every other
name and all tags are untouched -/
theorem C17_add_fresh {m : Maps} {n : Name} (hn : lookup n m.objs = none) (k : ObjId) :
    (apply m (.add n k)).2 = .bool true ∧
    (∀ x, lookup x (apply m (.add n k)).1.objs = if x = n then some k else lookup x m.objs) ∧
    (apply m (.add n k)).1.tags = m.tags := by
  refine ⟨by simp [apply, hn], fun x => ?_, rfl⟩
  exact lookup_emplace_absent hn

/-- `addObject(name, obj, type)` on a new name: as above, and the name's tag entry becomes `[type]` —
unless an orphan tag entry (left by `addType` on an unknown name) exists, which `emplace` keeps -/
theorem C17_addT_fresh {m : Maps} (h : WF m) {n : Name} (hn : lookup n m.objs = none) (k : ObjId) (ty : Ty) :
    (apply m (.addT n k ty)).2 = .bool true ∧
    (∀ x, lookup x (apply m (.addT n k ty)).1.objs = if x = n then some k else lookup x m.objs) ∧
    (∀ x, lookup x (apply m (.addT n k ty)).1.tags =
      if x = n then (match lookup n m.tags with | some l => some l | none => some [ty]) else lookup x m.tags) := by
  refine ⟨by simp [apply, hn], fun x => ?_, fun x => ?_⟩
  · simp only [apply, hn]; exact lookup_emplace_absent hn
  · simp only [apply, hn]
    cases ht : lookup n m.tags with
    | none => simp only; exact lookup_emplace_absent ht
    | some l =>
      rw [emplace_present h.2 ht]
      by_cases hx : x = n
      · subst hx; simp [ht]
      · simp [hx]

/-- what was added is found -/
theorem C17_add_then_find {m : Maps} {n : Name} (hn : lookup n m.objs = none) (k : ObjId) :
    (apply (apply m (.add n k)).1 (.find n)).2 = .obj (some k) := by
  have := (C17_add_fresh hn k).2.1 n
  simp only [apply] at this ⊢
  rw [this]; simp

/-- `findObject(name)` returns exactly the object stored under the name (null if none) and changes nothing -/
theorem C17_find_exact (m : Maps) (n : Name) : apply m (.find n) = (m, .obj (lookup n m.objs)) := rfl

/-- `getObjects()` returns exactly the stored objects, in key order, and changes nothing -/
theorem C17_getObjects_exact (m : Maps) :
    apply m .get = (m, .objs (m.objs.map (·.2))) ∧ (∀ k, k ∈ m.objs.map (·.2) ↔ ∃ n, (n, k) ∈ m.objs) := by
  refine ⟨rfl, fun k => ?_⟩
  simp only [List.mem_map]
  constructor
  · rintro ⟨⟨n, j⟩, he, hk⟩; exact ⟨n, by simpa [← hk] using he⟩
  · rintro ⟨n, he⟩; exact ⟨(n, k), he, rfl⟩

/-- `empty()` -/
theorem C17_empty_exact (m : Maps) : apply m .empty = (m, .bool m.objs.isEmpty) := rfl

/-- `findObject(pred)` with a predicate that does not throw: the result is the FIRST object in key
order that satisfies the predicate — and there is a result whenever some object satisfies it -/
theorem C17_findPred_first {m : Maps} {p : Pred} (hp : p.thr = 0) (k : ObjId) :
    (apply m (.fp p)).1 = m ∧
    ((apply m (.fp p)).2 = .obj (some k) ↔
      ∃ n pre post, m.objs = pre ++ (n, k) :: post ∧ p.base.eval k = true ∧ ∀ e ∈ pre, p.base.eval e.2 = false) ∧
    ((apply m (.fp p)).2 = .obj none ↔ ∀ e ∈ m.objs, p.base.eval e.2 = false) := by
  refine ⟨rfl, ?_, ?_⟩
  · constructor
    · intro h
      cases hs : scan p anyName 0 m.objs with
      | found n j =>
        simp [apply, hs] at h; subst h
        obtain ⟨pre, post, hl, hpre, hk⟩ := scan_found hs
        exact ⟨n, pre, post, hl, by simpa [Pred.hit, anyName] using hk,
          fun e he => by simpa [Pred.hit, anyName] using hpre e he⟩
      | none => simp [apply, hs] at h
      | threw => simp [apply, hs] at h
    · rintro ⟨n, pre, post, hl, hk, hpre⟩
      have := scan_first (p := p) (ok := anyName) (n := n) (post := post) hp 0
        (fun e he => by simpa [Pred.hit, anyName] using hpre e he) (by simpa [Pred.hit, anyName] using hk)
      simp [apply, hl, this]
  · constructor
    · intro h
      cases hs : scan p anyName 0 m.objs with
      | found n j => simp [apply, hs] at h
      | none => intro e he; simpa [Pred.hit, anyName] using scan_none hs e he
      | threw => simp [apply, hs] at h
    · intro hall
      cases hs : scan p anyName 0 m.objs with
      | found n j =>
        obtain ⟨pre, post, hl, _, hk⟩ := scan_found hs
        have := hall (n, j) (by rw [hl]; simp)
        simp [Pred.hit, anyName] at hk
        rw [hk] at this; contradiction
      | none => simp [apply, hs]
      | threw => exact absurd hs (scan_nothrow hp 0)

/-- `findObject(pred, type)`: the first object in key order that satisfies the predicate AND carries
the type tag -/
theorem C17_findPredType_first {m : Maps} {p : Pred} (hp : p.thr = 0) (ty : Ty) (k : ObjId) :
    (apply m (.fpt p ty)).1 = m ∧
    ((apply m (.fpt p ty)).2 = .obj (some k) ↔
      ∃ n pre post, m.objs = pre ++ (n, k) :: post ∧ (p.base.eval k = true ∧ hasType m.tags n ty = true) ∧
        ∀ e ∈ pre, (p.base.eval e.2 && hasType m.tags e.1 ty) = false) := by
  refine ⟨rfl, ?_⟩
  constructor
  · intro h
    cases hs : scan p (fun n => hasType m.tags n ty) 0 m.objs with
    | found n j =>
      simp [apply, hs] at h; subst h
      obtain ⟨pre, post, hl, hpre, hk⟩ := scan_found hs
      exact ⟨n, pre, post, hl, by simpa [Pred.hit] using hk, fun e he => by simpa [Pred.hit] using hpre e he⟩
    | none => simp [apply, hs] at h
    | threw => simp [apply, hs] at h
  · rintro ⟨n, pre, post, hl, hk, hpre⟩
    have := scan_first (p := p) (ok := fun n => hasType m.tags n ty) (n := n) (post := post) hp 0
      (fun e he => by simpa [Pred.hit] using hpre e he) (by simpa [Pred.hit] using hk)
    simp only [apply]
    rw [hl, this]

/-- `copyObject(from, to)` with `from` stored and `to` free: returns true, `to` now names THE SAME
object, nothing else changes in the object map, and `to` gets a copy of `from`'s tags (an orphan tag
entry of `to`, if any, is kept instead) -/
theorem C17_copy_aliases {m : Maps} (h : WF m) {a b : Name} {k : ObjId} (ha : lookup a m.objs = some k)
    (hb : lookup b m.objs = none) :
    (apply m (.cp a b)).2 = .bool true ∧
    lookup b (apply m (.cp a b)).1.objs = some k ∧ lookup a (apply m (.cp a b)).1.objs = some k ∧
    (∀ x, x ≠ b → lookup x (apply m (.cp a b)).1.objs = lookup x m.objs) ∧
    (∀ x, lookup x (apply m (.cp a b)).1.tags =
      if x = b then (match lookup b m.tags with | some l => some l | none => lookup a m.tags) else lookup x m.tags) := by
  have hab : a ≠ b := by intro hh; subst hh; rw [ha] at hb; contradiction
  have hobjs : ∀ x, lookup x (emplace b k m.objs) = if x = b then some k else lookup x m.objs :=
    fun x => lookup_emplace_absent hb
  refine ⟨by simp [apply, ha, hb], ?_, ?_, ?_, ?_⟩
  · simp only [apply, ha, hb]; rw [hobjs]; simp
  · simp only [apply, ha, hb]; rw [hobjs]; simp [hab, ha]
  · intro x hx; simp only [apply, ha, hb]; rw [hobjs]; simp [hx]
  · intro x
    simp only [apply, ha, hb]
    cases hta : lookup a m.tags with
    | none =>
      simp only
      by_cases hx : x = b
      · subst hx
        cases lookup x m.tags <;> simp
      · simp [hx]
    | some l =>
      simp only
      cases htb : lookup b m.tags with
      | none => rw [lookup_emplace_absent htb]
      | some l' =>
        rw [emplace_present h.2 htb]
        by_cases hx : x = b
        · subst hx; simp [htb]
        · simp [hx]

/-- `copyObject` is refused, without any change, if the source is missing or the target exists -/
theorem C17_copy_refused {m : Maps} (h : WF m) {a b : Name}
    (hr : lookup a m.objs = none ∨ ∃ j, lookup b m.objs = some j) : apply m (.cp a b) = (m, .bool false) := by
  cases ha : lookup a m.objs with
  | none => simp [apply, ha]
  | some k =>
    rcases hr with hr | ⟨j, hj⟩
    · rw [ha] at hr; contradiction
    · have := emplace_present (v := k) h.1 hj
      simp [apply, ha, hj, this]

/-- `removeObject(name)` on a stored name: returns true; exactly that entry and its tag entry
disappear, every other name keeps its object and its tags -/
theorem C17_remove_name {m : Maps} (h : WF m) {n : Name} {k : ObjId} (hn : lookup n m.objs = some k) :
    (apply m (.rm n)).2 = .bool true ∧
    (∀ x, lookup x (apply m (.rm n)).1.objs = if x = n then none else lookup x m.objs) ∧
    (∀ x, lookup x (apply m (.rm n)).1.tags = if x = n then none else lookup x m.tags) := by
  refine ⟨by simp [apply, hn], fun x => ?_, fun x => ?_⟩
  · simp only [apply, hn]; exact lookup_erase h.1
  · simp only [apply, hn]; exact lookup_erase h.2

theorem C17_remove_name_absent {m : Maps} {n : Name} (hn : lookup n m.objs = none) :
    apply m (.rm n) = (m, .bool false) := by
  simp [apply, hn]

/-- `removeObject(pred)` (predicate does not throw): removes exactly the FIRST entry in key order whose
object satisfies the predicate, together with its tags; nothing else changes; only one entry goes
even if several match -/
theorem C17_remove_pred {m : Maps} (h : WF m) {p : Pred} (hp : p.thr = 0) {n : Name} {k : ObjId}
    {pre post : List (Name × ObjId)} (hl : m.objs = pre ++ (n, k) :: post) (hk : p.base.eval k = true)
    (hpre : ∀ e ∈ pre, p.base.eval e.2 = false) :
    (apply m (.rp p)).2 = .bool true ∧
    (∀ x, lookup x (apply m (.rp p)).1.objs = if x = n then none else lookup x m.objs) ∧
    (∀ x, lookup x (apply m (.rp p)).1.tags = if x = n then none else lookup x m.tags) ∧
    (∀ e, e ∈ (apply m (.rp p)).1.objs ↔ e ∈ m.objs ∧ e.1 ≠ n) := by
  have hs := scan_first (p := p) (ok := anyName) (n := n) (post := post) hp 0
    (fun e he => by simpa [Pred.hit, anyName] using hpre e he) (by simpa [Pred.hit, anyName] using hk)
  rw [← hl] at hs
  refine ⟨by simp [apply, hs], fun x => ?_, fun x => ?_, fun e => ?_⟩
  · simp only [apply, hs]; exact lookup_erase h.1
  · simp only [apply, hs]; exact lookup_erase h.2
  · simp only [apply, hs]; exact mem_erase_iff h.1

theorem C17_remove_pred_none {m : Maps} {p : Pred} (hp : p.thr = 0) (hall : ∀ e ∈ m.objs, p.base.eval e.2 = false) :
    apply m (.rp p) = (m, .bool false) := by
  cases hs : scan p anyName 0 m.objs with
  | found n j =>
    obtain ⟨pre, post, hl, _, hk⟩ := scan_found hs
    have := hall (n, j) (by rw [hl]; simp)
    simp [Pred.hit, anyName] at hk
    rw [hk] at this; contradiction
  | none => simp [apply, hs]
  | threw => exact absurd hs (scan_nothrow hp 0)

/-- `checkObjectType(name, type)`: true exactly if the name has a tag entry containing the type -/
theorem C17_checkType (m : Maps) (n : Name) (ty : Ty) :
    apply m (.chk n ty) = (m, .bool (hasType m.tags n ty)) ∧
    (hasType m.tags n ty = true ↔ ∃ l, lookup n m.tags = some l ∧ ty ∈ l) := by
  refine ⟨rfl, ?_⟩
  cases hl : lookup n m.tags with
  | none => simp [hasType, hl]
  | some l => simp [hasType, hl]

/-- `addType(name, type)`: the name's tag entry (created empty if there is none — also for a name
without object) gets the type appended; objects and other names untouched -/
theorem C17_addType {m : Maps} (h : WF m) (n : Name) (ty : Ty) :
    (apply m (.addType n ty)).1.objs = m.objs ∧
    (∀ x, lookup x (apply m (.addType n ty)).1.tags =
      if x = n then some ((match lookup n m.tags with | some w => w | none => []) ++ [ty]) else lookup x m.tags) :=
  ⟨rfl, fun _ => lookup_pushTag h.2⟩

/-- the read-only methods do not change the maps -/
theorem C17_readonly (m : Maps) :
    (apply m .empty).1 = m ∧ (apply m .get).1 = m ∧ (∀ n ty, (apply m (.chk n ty)).1 = m) ∧
    (∀ n, (apply m (.find n)).1 = m) ∧ (∀ p, (apply m (.fp p)).1 = m) ∧ (∀ p ty, (apply m (.fpt p ty)).1 = m) :=
  ⟨rfl, rfl, fun _ _ => rfl, fun _ => rfl, fun _ => rfl, fun _ _ => rfl⟩

/-! ## Part 2 — atomicity: every concurrent execution is linearizable -/

/-- Linearizability.  For EVERY execution (any number of threads, any interleaving, throwing predicates
included) the calls, taken in the order of their linearisation points (the acquisition of `mapLock`),
replay through the sequential specification from the empty holder, reproduce exactly the result each
caller received, and end in the current contents of the two maps. -/
theorem C17_linearizable {s : St} (h : Reachable s) (hg : s.gone = false) :
    replay Maps.empty s.hist = some s.maps :=
  (inv_reachable h).h.rep hg

/-- the maps always satisfy the `std::map` invariant (sorted, unique names) -/
theorem C17_maps_wf {s : St} (h : Reachable s) : WF s.maps := (inv_reachable h).h.wf

/-- The linearisation point lies inside the call: the history entry is appended by the call's own
lock acquisition — after its `call`, before its `ret` — with the specification's result, and the maps
change at that very step to the specification's successor state. -/
theorem C17_lin_point_inside_call {s s' : St} {t : Tid} {op : Op} (hp : s.pc t = .called op)
    (hs : step s t .mlk = some s') :
    s'.hist = s.hist ++ [⟨t, op, (apply s.maps op).2⟩] ∧ s'.maps = (apply s.maps op).1 ∧
    ∃ pend, s'.pc t = .cs op (apply s.maps op).2 pend := by
  have htr := step_tr hs
  cases htr with
  | lin op' hp' hl hg =>
    rw [hp] at hp'; injection hp' with hp'; subst hp'
    exact ⟨rfl, rfl, _, setPc_pc_same _ _ _⟩
  | dLock hp' hl => rw [hp] at hp'; contradiction
  | dRelock c hp' hl => rw [hp] at hp'; contradiction

/-- the history only grows (so real-time order and each thread's program order are respected) -/
theorem C17_history_append_only {s s' : St} {t : Tid} {e : Ev} (hs : step s t e = some s') :
    ∃ l, s'.hist = s.hist ++ l := by
  have htr := step_tr hs
  cases htr
  case lin => exact ⟨_, rfl⟩
  all_goals exact ⟨[], by simp⟩

/-- only the thread that acquires the lock for a call changes the maps (plus the destructor's final
release): no step of any thread in any other position touches them -/
theorem C17_maps_change_only_at_lin {s s' : St} {t : Tid} {e : Ev} (hs : step s t e = some s')
    (hne : s'.maps ≠ s.maps) : (∃ op, s.pc t = .called op ∧ e = .mlk) ∨ (∃ c, s.pc t = .dLocked c ∧ e = .mul) := by
  have htr := step_tr hs
  cases htr
  case lin op hp hl hg => exact Or.inl ⟨op, hp, rfl⟩
  case dFinal c hp hl hc => exact Or.inr ⟨c, hp, rfl⟩
  all_goals exact absurd rfl hne

/-- The value a caller receives is the one the specification produced at the caller's latest
linearisation point (it is that thread's last history entry). -/
theorem C17_result_is_spec_result {s s' : St} {t : Tid} {r : Res} (h : Reachable s)
    (hs : step s t (.ret r) = some s') : ∃ op, lastOf t s.hist = some ⟨t, op, r⟩ ∧ r ≠ .threw := by
  have htr := step_tr hs
  cases htr with
  | ret op res hp hr => exact ⟨op, (inv_reachable h).h.mine t op r (by simp [hp, Pc.cur]), hr⟩

/-- Mutual exclusion of the critical sections. -/
theorem C17_mutual_exclusion {s : St} (h : Reachable s) {t u : Tid} (ht : (s.pc t).inCS = true)
    (hu : (s.pc u).inCS = true) : t = u := by
  have hl := (inv_reachable h).lk
  have a := (hl t).mpr ht
  have b := (hl u).mpr hu
  rw [a] at b; injection b

/-- The lock is held exactly while a thread is inside a method's critical section: no leaked lock —
in particular a thread that is idle, has not yet locked, or has returned holds nothing. -/
theorem C17_lock_iff_in_cs {s : St} (h : Reachable s) (t : Tid) : s.lock = some t ↔ (s.pc t).inCS = true :=
  (inv_reachable h).lk t

theorem C17_idle_holds_nothing {s : St} (h : Reachable s) {t : Tid} (hp : s.pc t = .idle) : s.lock ≠ some t := by
  intro hl
  have := ((inv_reachable h).lk t).mp hl
  rw [hp] at this; simp [Pc.inCS] at this

/-- Every plain access to the two maps that the model accepts is made by the thread holding `mapLock`
(or by the destructor tearing the maps down after its final release), it changes nothing in the model,
and while the holder exists two different threads can never both be in a position to access the maps:
the maps are data-race-free. -/
theorem C17_map_access_under_lock {s s' : St} {t : Tid} (h : Reachable s) (hs : step s t .mac = some s') :
    s' = s ∧ (s.lock = some t ∨ s.gone = true) := by
  have htr := step_tr hs
  cases htr with
  | mac hl =>
    refine ⟨rfl, ?_⟩
    rcases hl with hl | hl
    · exact Or.inl hl
    · exact Or.inr ((inv_reachable h).d t hl)

theorem C17_map_access_exclusive {s : St} {t u : Tid} (h : Reachable s) (hg : s.gone = false)
    (ht : (step s t .mac).isSome = true) (hu : (step s u .mac).isSome = true) : t = u := by
  obtain ⟨s1, h1⟩ := Option.isSome_iff_exists.mp ht
  obtain ⟨s2, h2⟩ := Option.isSome_iff_exists.mp hu
  rcases (C17_map_access_under_lock h h1).2 with a | a
  · rcases (C17_map_access_under_lock h h2).2 with b | b
    · rw [a] at b; injection b
    · rw [hg] at b; contradiction
  · rw [hg] at a; contradiction

/-- The lock holder is never blocked: it always has an enabled next step. -/
theorem C17_holder_enabled {s : St} (h : Reachable s) {t : Tid} (hl : s.lock = some t) :
    ∃ e, (step s t e).isSome = true := by
  have hcs := ((inv_reachable h).lk t).mp hl
  cases hp : s.pc t <;> rw [hp] at hcs <;> simp [Pc.inCS] at hcs
  case cs op res pend =>
    cases pend with
    | cons k r => exact ⟨.pcl k, by simp [step, hp]⟩
    | nil =>
      by_cases hr : res = .threw
      · exact ⟨.uth, by simp [step, hp, hr]⟩
      · exact ⟨.mul, by simp [step, hp, hr, hl]⟩
  case thrown op => exact ⟨.mul, by simp [step, hp, hl]⟩
  case dLocked c =>
    by_cases hc : s.maps.objs = [] ∨ 7 ≤ c
    · exact ⟨.mul, by simp [step, hp, hl, hc]⟩
    · exact ⟨.mul, by simp [step, hp, hl, hc]⟩

/-- each critical section is finite: a bounded measure strictly decreases with every step of the holder
(payload destructions and plain map accesses, which the model accepts as stutter steps, aside) -/
def csMeasure : Pc → Nat
  | .cs _ res pend => pend.length + (if res = .threw then 3 else 2)
  | .thrown _ => 2
  | .dLocked _ => 2
  | _ => 1

theorem C17_cs_bounded {s s' : St} {t : Tid} {e : Ev} (hcs : (s.pc t).inCS = true) (hs : step s t e = some s')
    (hne : ∀ k, e ≠ .pdt k) (hnm : e ≠ .mac) : csMeasure (s'.pc t) < csMeasure (s.pc t) := by
  have htr := step_tr hs
  cases htr <;> simp_all [Pc.inCS, csMeasure]

/-- Deadlock-freedom: whenever `mapLock` is free (and the holder has not been destroyed) every thread
that wants it can take it; every thread outside a critical section that is not waiting for the lock
has an enabled step. -/
theorem C17_acquirer_enabled_when_free {s : St} {t : Tid} (hl : s.lock = none) (hg : s.gone = false) :
    (∀ op, s.pc t = .called op → (step s t .mlk).isSome = true) ∧
    (s.pc t = .dCalled → (step s t .mlk).isSome = true) ∧
    (∀ c, s.pc t = .dRelock c → (step s t .mlk).isSome = true) := by
  refine ⟨fun op hp => by simp [step, hp, hl, hg], fun hp => by simp [step, hp, hl], fun c hp => by simp [step, hp, hl]⟩

theorem C17_no_deadlock {s : St} (h : Reachable s) (t : Tid) (hp : s.pc t ≠ .idle) :
    (∃ e, (step s t e).isSome = true) ∨ (∃ u, u ≠ t ∧ s.lock = some u ∧ ∃ e, (step s u e).isSome = true) ∨
    (s.gone = true ∧ ∃ op, s.pc t = .called op) := by
  have hlk := (inv_reachable h).lk
  cases hpc : s.pc t with
  | idle => exact absurd hpc hp
  | called op =>
    by_cases hg : s.gone = true
    · exact Or.inr (Or.inr ⟨hg, op, rfl⟩)
    · have hg' : s.gone = false := by cases hgg : s.gone <;> simp_all
      cases hl : s.lock with
      | none => exact Or.inl ⟨.mlk, by simp [step, hpc, hl, hg']⟩
      | some u =>
        refine Or.inr (Or.inl ⟨u, ?_, rfl, C17_holder_enabled h hl⟩)
        intro hut; subst hut
        have := (hlk u).mp hl
        rw [hpc] at this; simp [Pc.inCS] at this
  | cs op res pend => exact Or.inl (C17_holder_enabled h ((hlk t).mpr (by simp [hpc, Pc.inCS])))
  | thrown op => exact Or.inl (C17_holder_enabled h ((hlk t).mpr (by simp [hpc, Pc.inCS])))
  | unlocked op res =>
    by_cases hr : res = .threw
    · exact Or.inl ⟨.exc, by simp [step, hpc, hr]⟩
    · exact Or.inl ⟨.ret res, by simp [step, hpc, hr]⟩
  | dCalled =>
    cases hl : s.lock with
    | none => exact Or.inl ⟨.mlk, by simp [step, hpc, hl]⟩
    | some u =>
      refine Or.inr (Or.inl ⟨u, ?_, rfl, C17_holder_enabled h hl⟩)
      intro hut; subst hut
      have := (hlk u).mp hl
      rw [hpc] at this; simp [Pc.inCS] at this
  | dLocked c => exact Or.inl (C17_holder_enabled h ((hlk t).mpr (by simp [hpc, Pc.inCS])))
  | dWait c =>
    by_cases hc : c % 2 = 1
    · exact Or.inl ⟨.yld, by simp [step, hpc, hc]⟩
    · exact Or.inl ⟨.slp, by simp [step, hpc]; omega⟩
  | dRelock c =>
    cases hl : s.lock with
    | none => exact Or.inl ⟨.mlk, by simp [step, hpc, hl]⟩
    | some u =>
      refine Or.inr (Or.inl ⟨u, ?_, rfl, C17_holder_enabled h hl⟩)
      intro hut; subst hut
      have := (hlk u).mp hl
      rw [hpc] at this; simp [Pc.inCS] at this
  | dDone => exact Or.inl ⟨.retD, by simp [step, hpc]⟩

/-! ## Part 3 — a returned object stays alive while the caller holds it -/

/-- The payload destructor is accepted only for an object that no map entry and no caller-held
reference refers to (this guard is what trace acceptance checks against the real `shared_ptr`s). -/
theorem C17_destroyed_only_unreferenced {s s' : St} {t : Tid} {k : ObjId} (hs : step s t (.pdt k) = some s') :
    (∀ x ∈ s.maps.objs, x.2 ≠ k) ∧ (∀ h ∈ s.held, h.2 ≠ k) ∧ k ∉ s.dead := by
  have htr := step_tr hs
  cases htr with
  | pdt k hc hd hm hh => exact ⟨hm, hh, hd⟩

/-- In every reachable state, whatever the other threads did meanwhile (including removing the entry):
an object a caller holds a reference to has not been destroyed, and neither has any stored object. -/
theorem C17_alive {s : St} (h : Reachable s) :
    (∀ t k, (t, k) ∈ s.held → k ∉ s.dead) ∧ (∀ n k, (n, k) ∈ s.maps.objs → k ∉ s.dead) :=
  ⟨fun t k hk => (inv_reachable h).a.heldAlive (t, k) hk, fun n k hk => (inv_reachable h).a.mapAlive (n, k) hk⟩

/-- Every object in a result is owned by the caller from the linearisation point on — so when the call
returns, each returned object is held by the caller and alive; it stays alive until the caller's own
`rel` (by `C17_alive`, since no step of another thread removes the caller's entry from `held`). -/
theorem C17_returned_alive {s s' : St} {t : Tid} {r : Res} (h : Reachable s) (hs : step s t (.ret r) = some s') :
    ∀ k ∈ r.ids, (t, k) ∈ s'.held ∧ k ∉ s'.dead := by
  have hr' := reachable_step h hs
  have htr := step_tr hs
  cases htr with
  | ret op res hp hr =>
    intro k hk
    have hheld := (inv_reachable h).a.resHeld t op r (by simp [hp, Pc.cur]) k hk
    exact ⟨hheld, (C17_alive hr').1 t k hheld⟩

/-- no step of ANOTHER thread takes a reference away from a caller -/
theorem C17_held_stable {s s' : St} {t u : Tid} {e : Ev} {k : ObjId} (hs : step s u e = some s') (hut : u ≠ t)
    (hk : (t, k) ∈ s.held) : (t, k) ∈ s'.held := by
  have htr := step_tr hs
  cases htr
  case callNew => exact List.mem_cons_of_mem _ hk
  case rel j hp hh =>
    have : (t, k) ≠ (u, j) := fun hh => hut (by injection hh with h1 _; exact h1.symm)
    exact (List.mem_erase_of_ne this).mpr hk
  case lin op hp hl hg => exact mem_heldAfter_other (Ne.symm hut) hk
  all_goals exact hk

/-- a destroyed object is never handed out again -/
theorem C17_dead_never_returned {s s' : St} {t : Tid} {r : Res} {k : ObjId} (h : Reachable s) (hd : k ∈ s.dead)
    (hs : step s t (.ret r) = some s') : k ∉ r.ids := by
  intro hk
  have := (C17_returned_alive h hs k hk).2
  have htr := step_tr hs
  cases htr with
  | ret op res hp hr => exact this hd

/-! ## Non-vacuity -/

/-- a reachable concurrent state: thread 1 added `b ↦ 1` (typed), thread 2's duplicate add was refused and
its object destroyed, thread 3 copied `b` to `a`, thread 2 found `a` and holds object 1, thread 1 removed
BOTH names by predicate, one per call (first match in key order first); object 1 is still alive, the destructor of 1 is
not acceptable, and the history has six linearised calls -/
example : ∃ s, Reachable s ∧ s.maps = ⟨[], []⟩ ∧ s.held = [(2, 1)] ∧ s.dead = [2] ∧ s.hist.length = 6 ∧
    replay Maps.empty s.hist = some s.maps ∧ step s 3 (.pdt 1) = none ∧ s.lock = none :=
  ⟨_, ⟨[(1, .call (.addT 1 1 0)), (2, .call (.add 1 2)), (1, .mlk), (1, .mul), (1, .ret (.bool true)),
        (2, .mlk), (2, .mul), (2, .pdt 2), (2, .ret (.bool false)),
        (3, .call (.cp 1 0)), (3, .mlk), (3, .mul), (3, .ret (.bool true)),
        (2, .call (.find 0)), (1, .call (.rp ⟨.always, 0⟩)), (2, .mlk), (2, .mul), (1, .mlk), (1, .pcl 1), (1, .mul),
        (2, .ret (.obj (some 1))), (1, .ret (.bool true)),
        (1, .call (.rp ⟨.idEq 1, 0⟩)), (1, .mlk), (1, .pcl 1), (1, .mul), (1, .ret (.bool true))], rfl⟩,
   by decide, by decide, by decide, by decide, by decide, by decide, by decide⟩

/-- the states the spec theorems talk about exist: a well-formed map with two names, a duplicate, a copy -/
example : WF ⟨[(0, 5), (2, 7)], [(2, [1])]⟩ ∧ lookup 2 ([(0, 5), (2, 7)] : List (Name × ObjId)) = some 7 ∧
    lookup 1 ([(0, 5), (2, 7)] : List (Name × ObjId)) = none ∧
    apply ⟨[(0, 5), (2, 7)], [(2, [1])]⟩ (.cp 2 1) = (⟨[(0, 5), (1, 7), (2, 7)], [(1, [1]), (2, [1])]⟩, .bool true) ∧
    apply ⟨[(0, 5), (2, 7)], [(2, [1])]⟩ (.rp ⟨.always, 0⟩) = (⟨[(2, 7)], [(2, [1])]⟩, .bool true) := by
  refine ⟨⟨?_, ?_⟩, by decide, by decide, by decide, by decide⟩
  · simp [Sorted]
  · simp [Sorted]

/-- the destructor loop: a holder destroyed while an object is still stored gives up after 7 rounds -/
example : ∃ s, Reachable s ∧ s.gone = true ∧ s.maps = Maps.empty ∧ s.pc 0 = .dDone :=
  ⟨_, ⟨[(0, .call (.add 0 1)), (0, .mlk), (0, .mul), (0, .ret (.bool true)), (0, .callD), (0, .mlk),
        (0, .mul), (0, .yld), (0, .mlk), (0, .mul), (0, .slp), (0, .mlk), (0, .mul), (0, .yld), (0, .mlk),
        (0, .mul), (0, .slp), (0, .mlk), (0, .mul), (0, .yld), (0, .mlk), (0, .mul), (0, .slp), (0, .mlk),
        (0, .mul), (0, .yld), (0, .mlk), (0, .mul)], rfl⟩, by decide, by decide, by decide⟩

/-! ## Liveness: every call returns — for every scheduler

Environment events (`isEnv`, Proof/SOHLive.lean): `call`, `callD`, the client dropping a reference (`rel`),
the payload destructor (`pdt`) and the tap observation `mac`; every other event is a step of the library
(`mlk`, each predicate invocation `pcl` of a scan, `uth`, `mul`, `ret`/`exc`, the destructor's retry loop).
* `C17_terminates` (no livelock): an execution that makes no environment event from some point on cannot be
  infinite, whatever the scheduler does.  Two-level rank: first "has not taken `mapLock` yet" (other calls may
  still enlarge the map a waiting scan will walk), then the remaining work inside the critical section —
  `pend.length + 3`, the predicate invocations being bounded by the map as it is when the lock is taken — and
  `3·(7 − c) + …` for the destructor's at most 7 retry rounds.
* `C17_progress` / `C17_stuck_all_returned` (no deadlock): a reachable state without enabled library step has
  every thread returned, except calls racing with the completed destructor (use after destruction).
Not covered: starvation of one caller by infinitely many calls of others under an unfair mutex. -/

theorem C17_terminates (x : Live.Exec step) (N : Nat) (ts : List Tid) (hnd : ts.Nodup)
    (hts : ∀ n, N ≤ n → x.who n ∈ ts) (hnc : ∀ n, N ≤ n → isEnv (x.ev n) = false) : False :=
  Live.no_infinite_run_lex rankedLex ts hnd x N trivial hts hnc

/-- inside one critical section the number of remaining library steps is fixed at the lock acquisition: it is
the number of predicate invocations of the scan over the map as it is then, plus at most 3 -/
theorem C17_cs_work_fixed_at_lock {s s' : St} {t : Tid} {op : Op} (hp : s.pc t = .called op)
    (hs : step s t .mlk = some s') : μ s' t = (predCalls s.maps op).length + 3 := by
  have htr := step_tr hs
  cases htr <;> simp_all [μ, St.setPc, upd, Pc.rank]

/-- deadlock-freedom: if some thread is inside a call, some thread has an enabled library step — unless the
holder has been destroyed and every thread still inside a call is a call that raced with the destructor -/
theorem C17_progress {s : St} (h : Reachable s) {t : Tid} (ht : s.pc t ≠ .idle) :
    (∃ u, LibEnabled s u) ∨ (s.gone = true ∧ ∃ op, s.pc t = .called op) := by
  have hi := inv_reachable h
  cases hl : s.lock with
  | some u => exact Or.inl ⟨u, holder_lib hi hl⟩
  | none =>
    rcases free_lib hi hl t with h1 | h1 | h1
    · exact absurd h1 ht
    · exact Or.inl ⟨t, h1⟩
    · exact Or.inr h1

/-- a reachable state without enabled library step: every thread has returned, except calls made after the
holder's destructor completed -/
theorem C17_stuck_all_returned {s : St} (h : Reachable s) (hstuck : ∀ u, ¬ LibEnabled s u) (t : Tid) :
    s.pc t = .idle ∨ (s.gone = true ∧ ∃ op, s.pc t = .called op) := by
  by_cases ht : s.pc t = .idle
  · exact Or.inl ht
  · rcases C17_progress h ht with ⟨u, hu⟩ | h1
    · exact absurd hu (hstuck u)
    · exact Or.inr h1

/-- … in particular while the holder is alive: no enabled library step ⇒ every thread is idle -/
theorem C17_stuck_all_returned_alive {s : St} (h : Reachable s) (hg : s.gone = false)
    (hstuck : ∀ u, ¬ LibEnabled s u) (t : Tid) : s.pc t = .idle := by
  rcases C17_stuck_all_returned h hstuck t with h1 | ⟨h1, _⟩
  · exact h1
  · rw [hg] at h1; cases h1

/-- non-vacuity: thread 1 is inside a removing scan with one predicate invocation to come (rank 4), thread 2
waits for `mapLock` and cannot take it; thread 1 has an enabled library step -/
example : ∃ s, Reachable s ∧ s.pc 1 = .cs (.rp ⟨.always, 0⟩) (.bool true) [1] ∧ μ s 1 = 4 ∧ α s 2 = 1 ∧
    step s 2 .mlk = none ∧ LibEnabled s 1 :=
  ⟨_, ⟨[(1, .call (.add 1 1)), (1, .mlk), (1, .mul), (1, .ret (.bool true)), (2, .call (.find 1)),
        (1, .call (.rp ⟨.always, 0⟩)), (1, .mlk)], rfl⟩,
   by decide, by decide, by decide, by decide, ⟨.pcl 1, rfl, by decide⟩⟩

end ConcVerif.SOH
