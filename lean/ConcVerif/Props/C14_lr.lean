import ConcVerif.Proof.LRStep
/-! # C14 (lr_guarded part) — reads never wait for writers; a writer is delayed only by handles still held

Over the model `Model/LR.lean`.  Reader half: wait-freedom as (1) every read-side pc has an enabled event in
EVERY state (reachable or not, whatever the pcs of all writers), (2) no blocking event (mutex, spin-yield) is
accepted from a read-side pc, (3) a bounded strictly decreasing number of own steps per call, and constructively
(4) four own steps complete `lock_shared` from any state.  Writer half (safety facts L2–L4 that imply completion
under weak fairness; the fair-termination step itself is not mechanised): the value a spin load returns is the number of
registered readers; with nobody registered in the waited counter the exit edge is the enabled one; the waited
counter is the one new readers are NOT directed to, and it gains a member only from a reader that had loaded the
counting flag before; the mutex holder always has an enabled event. -/
namespace ConcVerif.LR

/-! ## readers -/

/-- (1) Wait-free: a thread inside `lock_shared` or inside a handle's destruction has an enabled event in every
state whatsoever — in particular with the writer suspended at any point of `modify`, or spinning. -/
theorem C14_lr_reader_enabled (s : St) (t : Tid) (h : (s.pc t).inReadCall = true) :
    ∃ e, (step s t e).isSome = true := by
  cases hp : s.pc t <;> rw [hp] at h <;> simp only [Pc.inReadCall] at h <;> (try cases h)
  case rdCalled => exact ⟨.ldCL s.cl, by simp [step, hp]⟩
  case rdCL c => exact ⟨.inc c (s.reg c).length, by simp [step, hp]⟩
  case rdInc c => exact ⟨.ldRL s.rl, by simp [step, hp]⟩
  case rdGot c x => exact ⟨.ret (.ls 0), by simp [step, hp]⟩
  case rdRel c x => exact ⟨.dec c (s.reg c).length, by simp [step, hp]⟩
  case rdRelD => exact ⟨.ret .rel, by simp [step, hp]⟩

/-- A thread that owns a handle can always read through it and can always start destroying it. -/
theorem C14_lr_handle_enabled (s : St) (t : Tid) (c x : Side) (h : s.pc t = .rdHold c x) :
    (step s t (.rd x (s.val x))).isSome = true ∧ (step s t (.call .rel)).isSome = true := by
  simp [step, h]

/-- (2) No blocking operation inside a read-side call: the model accepts no mutex event, no spin-yield and no
counter load from a read-side pc (so a header in which readers take `m_writeMutex` or spin is rejected). -/
theorem C14_lr_reader_never_blocks (s : St) (t : Tid) (h : (s.pc t).inReadCall = true ∨ ∃ c x, s.pc t = .rdHold c x)
    (e : Ev) (he : e = .lock ∨ e = .unlock ∨ e = .yld ∨ ∃ c v, e = .ldCnt c v) : step s t e = none := by
  rcases h with h | ⟨c, x, h⟩
  · cases hp : s.pc t <;> rw [hp] at h <;> simp only [Pc.inReadCall] at h <;> (try cases h) <;>
      rcases he with rfl | rfl | rfl | ⟨c', v, rfl⟩ <;> simp [step, hp, Pc.post]
  · rcases he with rfl | rfl | rfl | ⟨c', v, rfl⟩ <;> simp [step, h, Pc.post]

/-- (3) Bounded: every own step inside a read-side call decreases the number of steps left by exactly one
(4 for `lock_shared` and its try forms, 2 for the destruction of a handle). -/
theorem C14_lr_reader_bounded {s s' : St} {t : Tid} {e : Ev} (h : (s.pc t).inReadCall = true)
    (hs : step s t e = some s') : (s'.pc t).rdLeft + 1 = (s.pc t).rdLeft := by
  cases hp : s.pc t <;> rw [hp] at h <;> simp only [Pc.inReadCall] at h <;> (try cases h) <;>
    cases e <;> simp [step, hp, Pc.post] at hs
  case rdCalled.intro.ldCL v => obtain ⟨_, rfl⟩ := hs; simp [Pc.rdLeft]
  case rdCL.intro.inc c c' old => obtain ⟨_, rfl⟩ := hs; simp [Pc.rdLeft]
  case rdInc.intro.ldRL c v => obtain ⟨_, rfl⟩ := hs; simp [Pc.rdLeft]
  case rdGot.intro.ret c x k => cases k <;> simp at hs; subst hs; simp [Pc.rdLeft]
  case rdRel.intro.dec c x c' old => obtain ⟨_, rfl⟩ := hs; simp [Pc.rdLeft]
  case rdRelD.intro.ret k => cases k <;> simp at hs; subst hs; simp [Pc.rdLeft]

/-- (4) Constructively: from ANY state in which `r` has called `lock_shared`, four steps of `r` alone — every other
thread, in particular every writer, frozen wherever it is — give `r` its handle. -/
theorem C14_lr_acquire_alone (s : St) (r : Tid) (k : Nat) (h : s.pc r = .rdCalled) :
    ∃ s', run s [(r, .ldCL s.cl), (r, .inc s.cl (s.reg s.cl).length), (r, .ldRL s.rl), (r, .ret (.ls k))] = some s' ∧
      s'.pc r = .rdHold s.cl s.rl := by
  simp [run, runFrom, step, h]

/-- ... and two steps of `r` alone release it. -/
theorem C14_lr_release_alone (s : St) (r : Tid) (c x : Side) (h : s.pc r = .rdRel c x) :
    ∃ s', run s [(r, .dec c (s.reg c).length), (r, .ret .rel)] = some s' ∧ s'.pc r = .idle := by
  simp [run, runFrom, step, h]

/-! ## writers -/

/-- The counters are exact: the value a writer's counter load must observe (`(s.reg c).length`) is the number of
threads between their increment and their decrement of counter `c` (no duplicates, membership = pc). -/
theorem C14_lr_counter_exact {s : St} (h : Reachable s) (c : Side) :
    (s.reg c).Nodup ∧ ∀ t, t ∈ s.reg c ↔ (s.pc t).regIn = some c := by
  have hi := (full_reachable h).inv
  exact ⟨by cases c <;> simp [St.reg, hi.nodupL, hi.nodupR], fun t => hi.mem t c⟩

/-- Waiting for readers (pc `wWait`): if no thread is registered in counter `c`, the only load of `c` the model
accepts returns 0, and it records `c` as seen empty. -/
theorem C14_lr_writer_sees_zero {s : St} (h : Reachable s) {w : Tid} {op : OpId} {l c : Side} {zL zR : Bool}
    (hw : s.pc w = .wWait op l zL zR) (hnone : ∀ t, (s.pc t).regIn ≠ some c) :
    step s w (.ldCnt c 0) = some (s.setPc w (waitSeen op l zL zR c)) ∧ ∀ v, v ≠ 0 → step s w (.ldCnt c v) = none := by
  have hi := (full_reachable h).inv
  have hz : (s.reg c).length = 0 := by
    rw [List.length_eq_zero_iff]
    apply List.eq_nil_iff_forall_not_mem.2
    intro t ht; exact hnone t ((hi.mem t _).1 ht)
  constructor
  · simp [step, hw, hz]
  · intro v hv; simp [step, hw, hz, hv]

/-- Once both counters have been seen empty the second application is enabled. -/
theorem C14_lr_writer_exits (s : St) (w : Tid) (op : OpId) (l : Side) (hw : s.pc w = .wWait op l true true) :
    step s w (.fBegin l) = some (s.setPc w (.wF2 op l)) := by
  simp [step, hw]

/-- Constructively: when all handles have been released and no reader is mid-acquisition past its increment, three
own steps take a waiting writer into its second application, whatever it had observed before. -/
theorem C14_lr_writer_finishes_alone {s : St} (h : Reachable s) {w : Tid} {op : OpId} {l : Side} {zL zR : Bool}
    (hw : s.pc w = .wWait op l zL zR) (hnone : ∀ t, (s.pc t).regIn = none) :
    ∃ s', run s [(w, .ldCnt .L 0), (w, .ldCnt .R 0), (w, .fBegin l)] = some s' ∧ s'.pc w = .wF2 op l := by
  have hi := (full_reachable h).inv
  have hz : ∀ c, (s.reg c).length = 0 := by
    intro c
    rw [List.length_eq_zero_iff]
    apply List.eq_nil_iff_forall_not_mem.2
    intro t ht; have := (hi.mem t _).1 ht; rw [hnone t] at this; cases this
  simp [run, runFrom, step, hw, hz, waitSeen]

/-- Strict mode (the progress discipline checked for C14): a wait iteration — a counter load that returns non-zero —
is accepted only on a counter new readers are NOT directed to (`cl ≠ c`).  Today's code satisfies it: its first loop
waits on `¬cl`, then it flips `cl` and waits on the other counter. -/
theorem C14_lr_wait_closed {s s' : St} {w : Tid} {op : OpId} {l c : Side} {zL zR : Bool} {v : Nat}
    (hstrict : s.strict = true) (hw : s.pc w = .wWait op l zL zR) (hs : step s w (.ldCnt c v) = some s') (hv : v ≠ 0) :
    s.cl ≠ c := by
  simp [step, hw, hv, hstrict] at hs
  exact hs.2.1

/-- `strict` is a configuration constant: every state reached from `init true` is strict. -/
theorem C14_lr_strict_const {b : Bool} {s : St} {es : List (Tid × Ev)} (hr : run (init b) es = some s) : s.strict = b :=
  runFrom_inv (Inv := fun s => s.strict = b) (fun _ _ _ _ h0 hs => by rw [step_strict hs]; exact h0) rfl hr

/-- A thread becomes registered in counter `x` only by its increment, from the pc at which it had already loaded
the counting flag with value `x` ... -/
theorem C14_lr_register_from {s s' : St} {t : Tid} {e : Ev} {x : Side} (hs : step s t e = some s')
    (h' : (s'.pc t).regIn = some x) : (s.pc t).regIn = some x ∨ s.pc t = .rdCL x := by
  unfold step at hs
  split at hs <;> (try split at hs) <;> (try split at hs) <;> (try split at hs) <;> (try (simp at hs; done)) <;>
    (try (injection hs with hs; subst hs; simp [Pc.regIn] at h'; done))
  all_goals first
    | (rw [stutter_eq hs] at h'; exact Or.inl h')
    | (injection hs with hs; subst hs; rename_i hpc _; simp [Pc.regIn] at h'; subst h'; simp [hpc, Pc.regIn]; done)
    | (injection hs with hs; subst hs; rename_i hpc; simp [Pc.regIn] at h'; subst h'; simp [hpc, Pc.regIn]; done)
    | (injection hs with hs; subst hs; rename_i hpc hg; obtain ⟨rfl, rfl⟩ := hg; simp [Pc.regIn] at h'; subst h'
       exact Or.inr hpc)
    | (injection hs with hs; subst hs; exact Or.inl h')

/-- ... and it gets to that pc only by loading the counting flag, whose value is the current `cl`.  Hence, while a
writer spins, the set of threads registered in — or about to register in — the waited counter never gains a member:
the writer is delayed only by readers that arrived before, and completes once they have released. -/
theorem C14_lr_stale_from {s s' : St} {t : Tid} {e : Ev} {x : Side} (hs : step s t e = some s')
    (h' : s'.pc t = .rdCL x) : s.pc t = .rdCL x ∨ (s.pc t = .rdCalled ∧ x = s.cl) := by
  unfold step at hs
  split at hs <;> (try split at hs) <;> (try split at hs) <;> (try split at hs) <;> (try (simp at hs; done)) <;>
    (try (injection hs with hs; subst hs; simp at h'; done))
  all_goals first
    | (rw [stutter_eq hs] at h'; exact Or.inl h')
    | (injection hs with hs; subst hs; rename_i hpc hv; simp at h'; subst h'; subst hv; exact Or.inr ⟨hpc, rfl⟩)
    | (injection hs with hs; subst hs; exact Or.inl h')

/-- L2: the holder of the write mutex always has an enabled event (it never waits for anything but the two
counters, and a wait iteration is itself a step). -/
theorem C14_lr_holder_enabled {s : St} (h : Reachable s) {w : Tid} (hw : (s.pc w).post = true) :
    ∃ e, (step s w e).isSome = true := by
  have hm := ((full_reachable h).inv.holder w).1 hw
  cases hp : s.pc w <;> rw [hp] at hw <;> simp only [Pc.post] at hw <;> (try cases hw)
  case wA op l => exact ⟨.fBegin l.flip, by simp [step, hp]⟩
  case wF1 op l => exact ⟨.fEnd l.flip (s.val l.flip ++ [op]), by simp [step, hp]⟩
  case wF1d op l => exact ⟨.stRL l.flip, by simp [step, hp]⟩
  case wRb op l => exact ⟨.cpBegin l.flip, by simp [step, hp]⟩
  case wRbC op l => exact ⟨.cpEnd l.flip (s.val l), by simp [step, hp]⟩
  case wRbD op l => exact ⟨.unlock, by simp [step, hp, hm]⟩
  case wWait op l zL zR => exact ⟨.yld, by simp [step, hp]⟩
  case wF2 op l => exact ⟨.fEnd l (s.val l ++ [op]), by simp [step, hp]⟩
  case wF2d op l => exact ⟨.unlock, by simp [step, hp, hm]⟩
  case wRf op l => exact ⟨.cpBegin l, by simp [step, hp]⟩
  case wRfC op l => exact ⟨.cpEnd l (s.val l.flip), by simp [step, hp]⟩
  case wRfD op l => exact ⟨.unlock, by simp [step, hp, hm]⟩

/-- A waiting writer can always look at a counter: the load with the current value is enabled unless (strict mode)
it would be a wait iteration on the counter new readers are directed to; flag loads, a flag store and `yld` are
always enabled — the writer is never stuck inside its wait. -/
theorem C14_lr_spin_enabled {s : St} {w : Tid} {op : OpId} {l : Side} {zL zR : Bool} (hw : s.pc w = .wWait op l zL zR)
    (c : Side) :
    ((s.reg c).length = 0 ∨ s.strict = false ∨ s.cl ≠ c → (step s w (.ldCnt c (s.reg c).length)).isSome = true) ∧
    (step s w .yld).isSome = true ∧ (step s w (.ldCL s.cl)).isSome = true ∧ (step s w (.stCL c)).isSome = true := by
  refine ⟨?_, by simp [step, hw], by simp [step, hw, Pc.post, stutter], by simp [step, hw]⟩
  intro h
  simp only [step, hw]
  by_cases hz : (s.reg c).length = 0
  · simp [hz]
  · rcases h with h | h | h
    · exact absurd h hz
    · simp [hz, h]
    · simp [hz, h]

/-- L4: a writer waiting for the write mutex is enabled as soon as the mutex is free; if it is not free, its holder
is enabled (`C14_lr_holder_enabled`) — no deadlock between readers and writers. -/
theorem C14_lr_lock_enabled (s : St) (t : Tid) (op : OpId) (h : s.pc t = .wCalled op) (hm : s.mtx = none) :
    (step s t .lock).isSome = true := by
  simp [step, h, hm]

/-! ## non-vacuity -/

/-- a reader completes `lock_shared` while writer 0 sits in the middle of its first application -/
example : ∃ s s', Reachable s ∧ s.pc 0 = .wF1 7 .L ∧ s.pc 1 = .rdCalled ∧
    run s [(1, .ldCL .L), (1, .inc .L 0), (1, .ldRL .L), (1, .ret (.ls 0))] = some s' ∧ s'.pc 1 = .rdHold .L .L ∧
    s'.pc 0 = .wF1 7 .L :=
  ⟨_, _, ⟨false, [(0, .call (.modify 7)), (0, .lock), (0, .ldRL .L), (0, .fBegin .R), (1, .call (.ls 0))], rfl⟩, rfl, rfl, rfl, rfl, rfl⟩

/-- writer 0 waits on a reader registered in L (strict mode: `cl = R`, so waiting on L is allowed); once the reader has
released, the load returns 0 and the second application starts -/
example : ∃ s s', Reachable s ∧ s.strict = true ∧ s.pc 0 = .wWait 7 .L false true ∧ step s 0 (.ldCnt .L 1) = some s ∧
    run s [(1, .call .rel), (1, .dec .L 1), (1, .ret .rel), (0, .ldCnt .L 0), (0, .fBegin .L)] = some s' ∧
    s'.pc 0 = .wF2 7 .L :=
  ⟨_, _, ⟨true, [(1, .call (.ls 0)), (1, .ldCL .L), (1, .inc .L 0), (1, .ldRL .L), (1, .ret (.ls 0)),
         (0, .call (.modify 7)), (0, .lock), (0, .ldRL .L), (0, .fBegin .R), (0, .fEnd .R [7]), (0, .stRL .R), (0, .ldCL .L),
         (0, .ldCnt .R 0), (0, .stCL .R)], rfl⟩, rfl, rfl, rfl, rfl, rfl⟩

/-- strict mode rejects a wait iteration on the counter new readers are directed to (the two loops swapped), which the
safety model accepts -/
example : ∃ s s', Reachable s ∧ Reachable s' ∧ s.strict = true ∧ s'.strict = false ∧ s.pc 0 = .wWait 7 .L false false ∧
    s.cl = .L ∧ step s 0 (.ldCnt .L 1) = none ∧ step s' 0 (.ldCnt .L 1) = some s' :=
  ⟨_, _, ⟨true, [(1, .call (.ls 0)), (1, .ldCL .L), (1, .inc .L 0), (1, .ldRL .L), (1, .ret (.ls 0)),
         (0, .call (.modify 7)), (0, .lock), (0, .ldRL .L), (0, .fBegin .R), (0, .fEnd .R [7]), (0, .stRL .R), (0, .ldCL .L)], rfl⟩,
   ⟨false, [(1, .call (.ls 0)), (1, .ldCL .L), (1, .inc .L 0), (1, .ldRL .L), (1, .ret (.ls 0)),
         (0, .call (.modify 7)), (0, .lock), (0, .ldRL .L), (0, .fBegin .R), (0, .fEnd .R [7]), (0, .stRL .R), (0, .ldCL .L)], rfl⟩,
   rfl, rfl, rfl, rfl, rfl, rfl⟩

/-- a stale reader (counting flag loaded before the writer flipped it) is about to register in the counter the next
modify waits on first -/
example : ∃ s, Reachable s ∧ s.pc 0 = .wWait 8 .R false false ∧ s.pc 1 = .rdCL .L ∧ s.cl = .R :=
  ⟨_, ⟨true, [(1, .call (.ls 0)), (1, .ldCL .L),
         (0, .call (.modify 7)), (0, .lock), (0, .ldRL .L), (0, .fBegin .R), (0, .fEnd .R [7]), (0, .stRL .R), (0, .ldCL .L),
         (0, .ldCnt .R 0), (0, .stCL .R), (0, .ldCnt .L 0), (0, .fBegin .L), (0, .fEnd .L [7]), (0, .unlock), (0, .ret (.modify 7)),
         (0, .call (.modify 8)), (0, .lock), (0, .ldRL .R), (0, .fBegin .L), (0, .fEnd .L [7, 8]), (0, .stRL .L), (0, .ldCL .R)],
      rfl⟩, rfl, rfl, rfl⟩

end ConcVerif.LR
