import ConcVerif.Proof.LRStep
/-! # C14 (lr_guarded part) — reads never wait for writers; a writer is delayed only by handles still held

Over the model `Model/LR.lean`.  Reader half: wait-freedom as (1) every read-side pc has an enabled event in
EVERY state (reachable or not, whatever the pcs of all writers), (2) no blocking event (mutex, spin-yield) is
accepted from a read-side pc, (3) a bounded strictly decreasing number of own steps per call, and constructively
(4) four own steps complete `lock_shared` from any state.  Writer half (safety facts L2–L4 that imply completion
under weak fairness; the fair-termination step itself is not mechanised): the value a spin load returns is the number of
registered readers; with nobody registered in the waited counter the exit edge is the enabled one; the waited
counter is the one new readers are NOT directed to, and it gains a member only from a reader that had loaded the
counting flag before; the mutex holder always has an enabled event. -/
namespace ConcVerif.LR

/-! ## readers -/

/-- (1) Wait-free: a thread inside `lock_shared` or inside a handle's destruction has an enabled event in every
state whatsoever — in particular with the writer suspended at any point of `modify`, or spinning. -/
theorem C14_lr_reader_enabled (s : St) (t : Tid) (h : (s.pc t).inReadCall = true) :
    ∃ e, (step s t e).isSome = true := by
  cases hp : s.pc t <;> rw [hp] at h <;> simp only [Pc.inReadCall] at h <;> (try cases h)
  case rdCalled => exact ⟨.ldCL s.cl, by simp [step, hp]⟩
  case rdCL c => exact ⟨.inc c (s.reg c).length, by simp [step, hp]⟩
  case rdInc c => exact ⟨.ldRL s.rl, by simp [step, hp]⟩
  case rdGot c x => exact ⟨.ret (.ls 0), by simp [step, hp]⟩
  case rdRel c x => exact ⟨.dec c (s.reg c).length, by simp [step, hp]⟩
  case rdRelD => exact ⟨.ret .rel, by simp [step, hp]⟩

/-- A thread that owns a handle can always read through it and can always start destroying it. -/
theorem C14_lr_handle_enabled (s : St) (t : Tid) (c x : Side) (h : s.pc t = .rdHold c x) :
    (step s t (.rd x (s.val x))).isSome = true ∧ (step s t (.call .rel)).isSome = true := by
  simp [step, h]

/-- (2) No blocking operation inside a read-side call: the model accepts no mutex event, no spin-yield and no
counter load from a read-side pc (so a header in which readers take `m_writeMutex` or spin is rejected). -/
theorem C14_lr_reader_never_blocks (s : St) (t : Tid) (h : (s.pc t).inReadCall = true ∨ ∃ c x, s.pc t = .rdHold c x)
    (e : Ev) (he : e = .lock ∨ e = .unlock ∨ e = .yld ∨ ∃ c v, e = .ldCnt c v) : step s t e = none := by
  rcases h with h | ⟨c, x, h⟩
  · cases hp : s.pc t <;> rw [hp] at h <;> simp only [Pc.inReadCall] at h <;> (try cases h) <;>
      rcases he with rfl | rfl | rfl | ⟨c', v, rfl⟩ <;> simp [step, hp, Pc.post]
  · rcases he with rfl | rfl | rfl | ⟨c', v, rfl⟩ <;> simp [step, h, Pc.post]

/-- (3) Bounded: every own step inside a read-side call decreases the number of steps left by exactly one
(4 for `lock_shared` and its try forms, 2 for the destruction of a handle). -/
theorem C14_lr_reader_bounded {s s' : St} {t : Tid} {e : Ev} (h : (s.pc t).inReadCall = true)
    (hs : step s t e = some s') : (s'.pc t).rdLeft + 1 = (s.pc t).rdLeft := by
  cases hp : s.pc t <;> rw [hp] at h <;> simp only [Pc.inReadCall] at h <;> (try cases h) <;>
    cases e <;> simp [step, hp, Pc.post] at hs
  case rdCalled.intro.ldCL v => obtain ⟨_, rfl⟩ := hs; simp [Pc.rdLeft]
  case rdCL.intro.inc c c' old => obtain ⟨_, rfl⟩ := hs; simp [Pc.rdLeft]
  case rdInc.intro.ldRL c v => obtain ⟨_, rfl⟩ := hs; simp [Pc.rdLeft]
  case rdGot.intro.ret c x k => cases k <;> simp at hs; subst hs; simp [Pc.rdLeft]
  case rdRel.intro.dec c x c' old => obtain ⟨_, rfl⟩ := hs; simp [Pc.rdLeft]
  case rdRelD.intro.ret k => cases k <;> simp at hs; subst hs; simp [Pc.rdLeft]

/-- (4) Constructively: from ANY state in which `r` has called `lock_shared`, four steps of `r` alone — every other
thread, in particular every writer, frozen wherever it is — give `r` its handle. -/
theorem C14_lr_acquire_alone (s : St) (r : Tid) (k : Nat) (h : s.pc r = .rdCalled) :
    ∃ s', run s [(r, .ldCL s.cl), (r, .inc s.cl (s.reg s.cl).length), (r, .ldRL s.rl), (r, .ret (.ls k))] = some s' ∧
      s'.pc r = .rdHold s.cl s.rl := by
  simp [run, runFrom, step, h]

/-- ... and two steps of `r` alone release it. -/
theorem C14_lr_release_alone (s : St) (r : Tid) (c x : Side) (h : s.pc r = .rdRel c x) :
    ∃ s', run s [(r, .dec c (s.reg c).length), (r, .ret .rel)] = some s' ∧ s'.pc r = .idle := by
  simp [run, runFrom, step, h]

/-! ## writers -/

/-- The counters are exact: the value a writer's spin load must observe (`(s.reg c).length`) is the number of
threads between their increment and their decrement of counter `c` (no duplicates, membership = pc). -/
theorem C14_lr_counter_exact {s : St} (h : Reachable s) (c : Side) :
    (s.reg c).Nodup ∧ ∀ t, t ∈ s.reg c ↔ (s.pc t).regIn = some c := by
  have hi := (full_reachable h).inv
  exact ⟨by cases c <;> simp [St.reg, hi.nodupL, hi.nodupR], fun t => hi.mem t c⟩

/-- First wait loop: if no thread is registered in the waited counter, the load returns 0 and the writer leaves the
loop (the only `ldCnt` event accepted is the one with value 0, and it moves on). -/
theorem C14_lr_writer_exits_first {s : St} (h : Reachable s) {w : Tid} {op : OpId} {l c : Side}
    (hw : s.pc w = .wCL op l c) (hnone : ∀ t, (s.pc t).regIn ≠ some c.flip) :
    step s w (.ldCnt c.flip 0) = some (s.setPc w (.wW1 op l c)) ∧ ∀ v, v ≠ 0 → step s w (.ldCnt c.flip v) = none := by
  have hi := (full_reachable h).inv
  have hz : (s.reg c.flip).length = 0 := by
    rw [List.length_eq_zero_iff]
    apply List.eq_nil_iff_forall_not_mem.2
    intro t ht; exact hnone t ((hi.mem t _).1 ht)
  constructor
  · simp [step, hw, hz]
  · intro v hv; simp [step, hw, hz, hv]

/-- Second wait loop, same statement for counter `c`. -/
theorem C14_lr_writer_exits_second {s : St} (h : Reachable s) {w : Tid} {op : OpId} {l c : Side}
    (hw : s.pc w = .wTogC op l c) (hnone : ∀ t, (s.pc t).regIn ≠ some c) :
    step s w (.ldCnt c 0) = some (s.setPc w (.wW2 op l)) ∧ ∀ v, v ≠ 0 → step s w (.ldCnt c v) = none := by
  have hi := (full_reachable h).inv
  have hz : (s.reg c).length = 0 := by
    rw [List.length_eq_zero_iff]
    apply List.eq_nil_iff_forall_not_mem.2
    intro t ht; exact hnone t ((hi.mem t _).1 ht)
  constructor
  · simp [step, hw, hz]
  · intro v hv; simp [step, hw, hz, hv]

/-- The counter a writer waits on is never the one new readers are directed to: in the first loop (waiting on `¬c`)
the counting flag is `c`; in the second loop (waiting on `c`) it is `¬c`. -/
theorem C14_lr_waited_counter_closed {s : St} (h : Reachable s) {w : Tid} {op : OpId} {l c : Side} :
    (s.pc w = .wCL op l c → s.cl = c) ∧ (s.pc w = .wTogC op l c → s.cl = c.flip) := by
  have hi := (full_reachable h).inv
  constructor
  · intro hw; have ph := hi.phase w (by simp [hw, Pc.post]); rw [hw] at ph; exact ph.2
  · intro hw; have ph := hi.phase w (by simp [hw, Pc.post]); rw [hw] at ph; exact ph.2.1

/-- A thread becomes registered in counter `x` only by its increment, from the pc at which it had already loaded
the counting flag with value `x` ... -/
theorem C14_lr_register_from {s s' : St} {t : Tid} {e : Ev} {x : Side} (hs : step s t e = some s')
    (h' : (s'.pc t).regIn = some x) : (s.pc t).regIn = some x ∨ s.pc t = .rdCL x := by
  unfold step at hs
  split at hs <;> (try split at hs) <;> (try split at hs) <;> (try (simp at hs; done)) <;>
    (try (injection hs with hs; subst hs; simp [Pc.regIn] at h'; done))
  all_goals first
    | (rw [stutter_eq hs] at h'; exact Or.inl h')
    | (injection hs with hs; subst hs; rename_i hpc _; simp [Pc.regIn] at h'; subst h'; simp [hpc, Pc.regIn]; done)
    | (injection hs with hs; subst hs; rename_i hpc; simp [Pc.regIn] at h'; subst h'; simp [hpc, Pc.regIn]; done)
    | (injection hs with hs; subst hs; rename_i hpc hg; obtain ⟨rfl, rfl⟩ := hg; simp [Pc.regIn] at h'; subst h'
       exact Or.inr hpc)
    | (injection hs with hs; subst hs; exact Or.inl h')

/-- ... and it gets to that pc only by loading the counting flag, whose value is the current `cl`.  Hence, while a
writer spins, the set of threads registered in — or about to register in — the waited counter never gains a member:
the writer is delayed only by readers that arrived before, and completes once they have released. -/
theorem C14_lr_stale_from {s s' : St} {t : Tid} {e : Ev} {x : Side} (hs : step s t e = some s')
    (h' : s'.pc t = .rdCL x) : s.pc t = .rdCL x ∨ (s.pc t = .rdCalled ∧ x = s.cl) := by
  unfold step at hs
  split at hs <;> (try split at hs) <;> (try split at hs) <;> (try (simp at hs; done)) <;>
    (try (injection hs with hs; subst hs; simp at h'; done))
  all_goals first
    | (rw [stutter_eq hs] at h'; exact Or.inl h')
    | (injection hs with hs; subst hs; rename_i hpc hv; simp at h'; subst h'; subst hv; exact Or.inr ⟨hpc, rfl⟩)
    | (injection hs with hs; subst hs; exact Or.inl h')

/-- L2: the holder of the write mutex always has an enabled event (it never waits for anything but the two
counters, and a spin iteration is itself a step). -/
theorem C14_lr_holder_enabled {s : St} (h : Reachable s) {w : Tid} (hw : (s.pc w).post = true) :
    ∃ e, (step s w e).isSome = true := by
  have hm := ((full_reachable h).inv.holder w).1 hw
  cases hp : s.pc w <;> rw [hp] at hw <;> simp only [Pc.post] at hw <;> (try cases hw)
  case wLocked op => exact ⟨.ldRL s.rl, by simp [step, hp]⟩
  case wRL op l => exact ⟨.fBegin l.flip, by simp [step, hp]⟩
  case wF1 op l => exact ⟨.fEnd l.flip (s.val l.flip ++ [op]), by simp [step, hp]⟩
  case wF1d op l => exact ⟨.stRL l.flip, by simp [step, hp]⟩
  case wRb op l => exact ⟨.cpBegin l.flip, by simp [step, hp]⟩
  case wRbC op l => exact ⟨.cpEnd l.flip (s.val l), by simp [step, hp]⟩
  case wRbD op l => exact ⟨.unlock, by simp [step, hp, hm]⟩
  case wTog op l => exact ⟨.ldCL s.cl, by simp [step, hp]⟩
  case wCL op l c => exact ⟨.yld, by simp [step, hp]⟩
  case wW1 op l c => exact ⟨.stCL c.flip, by simp [step, hp]⟩
  case wTogC op l c => exact ⟨.yld, by simp [step, hp]⟩
  case wW2 op l => exact ⟨.fBegin l, by simp [step, hp]⟩
  case wF2 op l => exact ⟨.fEnd l (s.val l ++ [op]), by simp [step, hp]⟩
  case wF2d op l => exact ⟨.unlock, by simp [step, hp, hm]⟩
  case wRf op l => exact ⟨.cpBegin l, by simp [step, hp]⟩
  case wRfC op l => exact ⟨.cpEnd l (s.val l.flip), by simp [step, hp]⟩
  case wRfD op l => exact ⟨.unlock, by simp [step, hp, hm]⟩

/-- The spin load itself is always enabled with the current counter value (the writer is never stuck in a loop
iteration). -/
theorem C14_lr_spin_enabled {s : St} {w : Tid} {op : OpId} {l c : Side} :
    (s.pc w = .wCL op l c → (step s w (.ldCnt c.flip (s.reg c.flip).length)).isSome = true) ∧
    (s.pc w = .wTogC op l c → (step s w (.ldCnt c (s.reg c).length)).isSome = true) := by
  constructor <;> intro hw <;> simp [step, hw] <;> split <;> simp

/-- L4: a writer waiting for the write mutex is enabled as soon as the mutex is free; if it is not free, its holder
is enabled (`C14_lr_holder_enabled`) — no deadlock between readers and writers. -/
theorem C14_lr_lock_enabled (s : St) (t : Tid) (op : OpId) (h : s.pc t = .wCalled op) (hm : s.mtx = none) :
    (step s t .lock).isSome = true := by
  simp [step, h, hm]

/-! ## non-vacuity -/

/-- a reader completes `lock_shared` while writer 0 sits in the middle of its first application -/
example : ∃ s s', Reachable s ∧ s.pc 0 = .wF1 7 .L ∧ s.pc 1 = .rdCalled ∧
    run s [(1, .ldCL .L), (1, .inc .L 0), (1, .ldRL .L), (1, .ret (.ls 0))] = some s' ∧ s'.pc 1 = .rdHold .L .L ∧
    s'.pc 0 = .wF1 7 .L :=
  ⟨_, _, ⟨[(0, .call (.modify 7)), (0, .lock), (0, .ldRL .L), (0, .fBegin .R), (1, .call (.ls 0))], rfl⟩, rfl, rfl, rfl, rfl, rfl⟩

/-- writer 0 spins in its second loop on a reader registered in L; once the reader has released, the exit edge fires -/
example : ∃ s s', Reachable s ∧ s.pc 0 = .wTogC 7 .L .L ∧ step s 0 (.ldCnt .L 1) = some s ∧
    run s [(1, .call .rel), (1, .dec .L 1), (1, .ret .rel), (0, .ldCnt .L 0)] = some s' ∧ s'.pc 0 = .wW2 7 .L :=
  ⟨_, _, ⟨[(1, .call (.ls 0)), (1, .ldCL .L), (1, .inc .L 0), (1, .ldRL .L), (1, .ret (.ls 0)),
         (0, .call (.modify 7)), (0, .lock), (0, .ldRL .L), (0, .fBegin .R), (0, .fEnd .R [7]), (0, .stRL .R), (0, .ldCL .L),
         (0, .ldCnt .R 0), (0, .stCL .R)], rfl⟩, rfl, rfl, rfl, rfl⟩

/-- a stale reader (counting flag loaded before the writer flipped it) registers in the counter of the first loop -/
example : ∃ s, Reachable s ∧ s.pc 0 = .wCL 8 .R .R ∧ s.pc 1 = .rdCL .L ∧ s.cl = .R :=
  ⟨_, ⟨[(1, .call (.ls 0)), (1, .ldCL .L),
         (0, .call (.modify 7)), (0, .lock), (0, .ldRL .L), (0, .fBegin .R), (0, .fEnd .R [7]), (0, .stRL .R), (0, .ldCL .L),
         (0, .ldCnt .R 0), (0, .stCL .R), (0, .ldCnt .L 0), (0, .fBegin .L), (0, .fEnd .L [7]), (0, .unlock), (0, .ret (.modify 7)),
         (0, .call (.modify 8)), (0, .lock), (0, .ldRL .R), (0, .fBegin .L), (0, .fEnd .L [7, 8]), (0, .stRL .L), (0, .ldCL .R)],
      rfl⟩, rfl, rfl, rfl⟩

end ConcVerif.LR
