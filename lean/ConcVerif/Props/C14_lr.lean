import ConcVerif.Proof.LRStep
import ConcVerif.Proof.LRLive
/-! # C14 (lr_guarded part) — reads never wait for writers; a writer is delayed only by handles still held

Over the model `Model/LR.lean`.  Reader half: wait-freedom as (1) every read-side pc has an enabled event in
EVERY state (reachable or not, whatever the pcs of all writers), (2) no blocking event (mutex, spin-yield) is
accepted from a read-side pc, (3) a bounded strictly decreasing number of own steps per call, and constructively
(4) four own steps complete `lock_shared` from any state.  Writer half (safety facts L2–L4 that imply completion
under weak fairness; the fair-termination step itself is not mechanised): the value a spin load returns is the number of
registered readers; with nobody registered in the waited counter the exit edge is the enabled one; the waited
counter is the one new readers are NOT directed to, and it gains a member only from a reader that had loaded the
counting flag before; the mutex holder always has an enabled event. -/
namespace ConcVerif.LR

/-! ## readers -/

/-- (1) Wait-free: a thread inside `lock_shared` or inside a handle's destruction has an enabled event in every
state whatsoever — in particular with the writer suspended at any point of `modify`, or spinning. -/
theorem C14_lr_reader_enabled (s : St) (t : Tid) (h : (s.pc t).inReadCall = true) :
    ∃ e, (step s t e).isSome = true := by
  cases hp : s.pc t <;> rw [hp] at h <;> simp only [Pc.inReadCall] at h <;> (try cases h)
  case rdCalled => exact ⟨.ldCL s.cl, by simp [step, hp]⟩
  case rdCL c => exact ⟨.inc c (s.reg c).length, by simp [step, hp]⟩
  case rdInc c => exact ⟨.ldRL s.rl, by simp [step, hp]⟩
  case rdGot c x => exact ⟨.ret (.ls 0), by simp [step, hp]⟩
  case rdRel c x => exact ⟨.dec c (s.reg c).length, by simp [step, hp]⟩
  case rdRelD => exact ⟨.ret .rel, by simp [step, hp]⟩

/-- A thread that owns a handle can always read through it and can always start destroying it. -/
theorem C14_lr_handle_enabled (s : St) (t : Tid) (c x : Side) (h : s.pc t = .rdHold c x) :
    (step s t (.rd x (s.val x))).isSome = true ∧ (step s t (.call .rel)).isSome = true := by
  simp [step, h]

/-- (2) No blocking operation inside a read-side call: the model accepts no mutex event, no spin-yield and no
counter load from a read-side pc (so a header in which readers take `m_writeMutex` or spin is rejected). -/
theorem C14_lr_reader_never_blocks (s : St) (t : Tid) (h : (s.pc t).inReadCall = true ∨ ∃ c x, s.pc t = .rdHold c x)
    (e : Ev) (he : e = .lock ∨ e = .unlock ∨ e = .yld ∨ ∃ c v, e = .ldCnt c v) : step s t e = none := by
  rcases h with h | ⟨c, x, h⟩
  · cases hp : s.pc t <;> rw [hp] at h <;> simp only [Pc.inReadCall] at h <;> (try cases h) <;>
      rcases he with rfl | rfl | rfl | ⟨c', v, rfl⟩ <;> simp [step, hp, Pc.post]
  · rcases he with rfl | rfl | rfl | ⟨c', v, rfl⟩ <;> simp [step, h, Pc.post]

/-- (3) Bounded: every own step inside a read-side call decreases the number of steps left by exactly one
(4 for `lock_shared` and its try forms, 2 for the destruction of a handle). -/
theorem C14_lr_reader_bounded {s s' : St} {t : Tid} {e : Ev} (h : (s.pc t).inReadCall = true)
    (hs : step s t e = some s') : (s'.pc t).rdLeft + 1 = (s.pc t).rdLeft := by
  cases hp : s.pc t <;> rw [hp] at h <;> simp only [Pc.inReadCall] at h <;> (try cases h) <;>
    cases e <;> simp [step, hp, Pc.post] at hs
  case rdCalled.intro.ldCL v => obtain ⟨_, rfl⟩ := hs; simp [Pc.rdLeft]
  case rdCL.intro.inc c c' old => obtain ⟨_, rfl⟩ := hs; simp [Pc.rdLeft]
  case rdInc.intro.ldRL c v => obtain ⟨_, rfl⟩ := hs; simp [Pc.rdLeft]
  case rdGot.intro.ret c x k => cases k <;> simp at hs; subst hs; simp [Pc.rdLeft]
  case rdRel.intro.dec c x c' old => obtain ⟨_, rfl⟩ := hs; simp [Pc.rdLeft]
  case rdRelD.intro.ret k => cases k <;> simp at hs; subst hs; simp [Pc.rdLeft]

/-- (4) Constructively: from ANY state in which `r` has called `lock_shared`, four steps of `r` alone — every other
thread, in particular every writer, frozen wherever it is — give `r` its handle. -/
theorem C14_lr_acquire_alone (s : St) (r : Tid) (k : Nat) (h : s.pc r = .rdCalled) :
    ∃ s', run s [(r, .ldCL s.cl), (r, .inc s.cl (s.reg s.cl).length), (r, .ldRL s.rl), (r, .ret (.ls k))] = some s' ∧
      s'.pc r = .rdHold s.cl s.rl := by
  simp [run, runFrom, step, h]

/-- ... and two steps of `r` alone release it. -/
theorem C14_lr_release_alone (s : St) (r : Tid) (c x : Side) (h : s.pc r = .rdRel c x) :
    ∃ s', run s [(r, .dec c (s.reg c).length), (r, .ret .rel)] = some s' ∧ s'.pc r = .idle := by
  simp [run, runFrom, step, h]

/-! ## writers -/

/-- The counters are exact: the value a writer's counter load must observe (`(s.reg c).length`) is the number of
threads between their increment and their decrement of counter `c` (no duplicates, membership = pc). -/
theorem C14_lr_counter_exact {s : St} (h : Reachable s) (c : Side) :
    (s.reg c).Nodup ∧ ∀ t, t ∈ s.reg c ↔ (s.pc t).regIn = some c := by
  have hi := (full_reachable h).inv
  exact ⟨by cases c <;> simp [St.reg, hi.nodupL, hi.nodupR], fun t => hi.mem t c⟩

/-- Waiting for readers (pc `wWait`): if no thread is registered in counter `c`, the only load of `c` the model
accepts returns 0, and it records `c` as seen empty. -/
theorem C14_lr_writer_sees_zero {s : St} (h : Reachable s) {w : Tid} {op : OpId} {l c : Side} {zL zR : Bool}
    (hw : s.pc w = .wWait op l zL zR) (hnone : ∀ t, (s.pc t).regIn ≠ some c) :
    step s w (.ldCnt c 0) = some (s.setPc w (waitSeen op l zL zR c)) ∧ ∀ v, v ≠ 0 → step s w (.ldCnt c v) = none := by
  have hi := (full_reachable h).inv
  have hz : (s.reg c).length = 0 := by
    rw [List.length_eq_zero_iff]
    apply List.eq_nil_iff_forall_not_mem.2
    intro t ht; exact hnone t ((hi.mem t _).1 ht)
  constructor
  · simp [step, hw, hz]
  · intro v hv; simp [step, hw, hz, hv]

/-- Once both counters have been seen empty the second application is enabled. -/
theorem C14_lr_writer_exits (s : St) (w : Tid) (op : OpId) (l : Side) (hw : s.pc w = .wWait op l true true) :
    step s w (.fBegin l) = some (s.setPc w (.wF2 op l)) := by
  simp [step, hw]

/-- Constructively: when all handles have been released and no reader is mid-acquisition past its increment, three
own steps take a waiting writer into its second application, whatever it had observed before. -/
theorem C14_lr_writer_finishes_alone {s : St} (h : Reachable s) {w : Tid} {op : OpId} {l : Side} {zL zR : Bool}
    (hw : s.pc w = .wWait op l zL zR) (hnone : ∀ t, (s.pc t).regIn = none) :
    ∃ s', run s [(w, .ldCnt .L 0), (w, .ldCnt .R 0), (w, .fBegin l)] = some s' ∧ s'.pc w = .wF2 op l := by
  have hi := (full_reachable h).inv
  have hz : ∀ c, (s.reg c).length = 0 := by
    intro c
    rw [List.length_eq_zero_iff]
    apply List.eq_nil_iff_forall_not_mem.2
    intro t ht; have := (hi.mem t _).1 ht; rw [hnone t] at this; cases this
  simp [run, runFrom, step, hw, hz, waitSeen]

/-- Strict mode (the progress discipline checked for C14): a wait iteration — a counter load that returns non-zero —
is accepted only on a counter new readers are NOT directed to (`cl ≠ c`).  Today's code satisfies it: its first loop
waits on `¬cl`, then it flips `cl` and waits on the other counter. -/
theorem C14_lr_wait_closed {s s' : St} {w : Tid} {op : OpId} {l c : Side} {zL zR : Bool} {v : Nat}
    (hstrict : s.strict = true) (hw : s.pc w = .wWait op l zL zR) (hs : step s w (.ldCnt c v) = some s') (hv : v ≠ 0) :
    s.cl ≠ c := by
  simp [step, hw, hv, hstrict] at hs
  exact hs.2.1

/-- `strict` is a configuration constant: every state reached from `init true` is strict. -/
theorem C14_lr_strict_const {b : Bool} {s : St} {es : List (Tid × Ev)} (hr : run (init b) es = some s) : s.strict = b :=
  runFrom_inv (Inv := fun s => s.strict = b) (fun _ _ _ _ h0 hs => by rw [step_strict hs]; exact h0) rfl hr

/-- A thread becomes registered in counter `x` only by its increment, from the pc at which it had already loaded
the counting flag with value `x` ... -/
theorem C14_lr_register_from {s s' : St} {t : Tid} {e : Ev} {x : Side} (hs : step s t e = some s')
    (h' : (s'.pc t).regIn = some x) : (s.pc t).regIn = some x ∨ s.pc t = .rdCL x := by
  unfold step at hs
  split at hs <;> (try split at hs) <;> (try split at hs) <;> (try split at hs) <;> (try (simp at hs; done)) <;>
    (try (injection hs with hs; subst hs; simp [Pc.regIn] at h'; done))
  all_goals first
    | (rw [stutter_eq hs] at h'; exact Or.inl h')
    | (injection hs with hs; subst hs; rename_i hpc _; simp [Pc.regIn] at h'; subst h'; simp [hpc, Pc.regIn]; done)
    | (injection hs with hs; subst hs; rename_i hpc; simp [Pc.regIn] at h'; subst h'; simp [hpc, Pc.regIn]; done)
    | (injection hs with hs; subst hs; rename_i hpc hg; obtain ⟨rfl, rfl⟩ := hg; simp [Pc.regIn] at h'; subst h'
       exact Or.inr hpc)
    | (injection hs with hs; subst hs; exact Or.inl h')

/-- ... and it gets to that pc only by loading the counting flag, whose value is the current `cl`.  Hence, while a
writer spins, the set of threads registered in — or about to register in — the waited counter never gains a member:
the writer is delayed only by readers that arrived before, and completes once they have released. -/
theorem C14_lr_stale_from {s s' : St} {t : Tid} {e : Ev} {x : Side} (hs : step s t e = some s')
    (h' : s'.pc t = .rdCL x) : s.pc t = .rdCL x ∨ (s.pc t = .rdCalled ∧ x = s.cl) := by
  unfold step at hs
  split at hs <;> (try split at hs) <;> (try split at hs) <;> (try split at hs) <;> (try (simp at hs; done)) <;>
    (try (injection hs with hs; subst hs; simp at h'; done))
  all_goals first
    | (rw [stutter_eq hs] at h'; exact Or.inl h')
    | (injection hs with hs; subst hs; rename_i hpc hv; simp at h'; subst h'; subst hv; exact Or.inr ⟨hpc, rfl⟩)
    | (injection hs with hs; subst hs; exact Or.inl h')

/-- L2: the holder of the write mutex always has an enabled event (it never waits for anything but the two
counters, and a wait iteration is itself a step). -/
theorem C14_lr_holder_enabled {s : St} (h : Reachable s) {w : Tid} (hw : (s.pc w).post = true) :
    ∃ e, (step s w e).isSome = true := by
  have hm := ((full_reachable h).inv.holder w).1 hw
  cases hp : s.pc w <;> rw [hp] at hw <;> simp only [Pc.post] at hw <;> (try cases hw)
  case wA op l => exact ⟨.fBegin l.flip, by simp [step, hp]⟩
  case wF1 op l => exact ⟨.fEnd l.flip (s.val l.flip ++ [op]), by simp [step, hp]⟩
  case wF1d op l => exact ⟨.stRL l.flip, by simp [step, hp]⟩
  case wRb op l => exact ⟨.cpBegin l.flip, by simp [step, hp]⟩
  case wRbC op l => exact ⟨.cpEnd l.flip (s.val l), by simp [step, hp]⟩
  case wRbD op l => exact ⟨.unlock, by simp [step, hp, hm]⟩
  case wWait op l zL zR => exact ⟨.yld, by simp [step, hp]⟩
  case wF2 op l => exact ⟨.fEnd l (s.val l ++ [op]), by simp [step, hp]⟩
  case wF2d op l => exact ⟨.unlock, by simp [step, hp, hm]⟩
  case wRf op l => exact ⟨.cpBegin l, by simp [step, hp]⟩
  case wRfC op l => exact ⟨.cpEnd l (s.val l.flip), by simp [step, hp]⟩
  case wRfD op l => exact ⟨.unlock, by simp [step, hp, hm]⟩

/-- A waiting writer can always look at a counter: the load with the current value is enabled unless (strict mode)
it would be a wait iteration on the counter new readers are directed to; flag loads, a flag store and `yld` are
always enabled — the writer is never stuck inside its wait. -/
theorem C14_lr_spin_enabled {s : St} {w : Tid} {op : OpId} {l : Side} {zL zR : Bool} (hw : s.pc w = .wWait op l zL zR)
    (c : Side) :
    ((s.reg c).length = 0 ∨ s.strict = false ∨ s.cl ≠ c → (step s w (.ldCnt c (s.reg c).length)).isSome = true) ∧
    (step s w .yld).isSome = true ∧ (step s w (.ldCL s.cl)).isSome = true ∧ (step s w (.stCL c)).isSome = true := by
  refine ⟨?_, by simp [step, hw], by simp [step, hw, Pc.post, stutter], by simp [step, hw]⟩
  intro h
  simp only [step, hw]
  by_cases hz : (s.reg c).length = 0
  · simp [hz]
  · rcases h with h | h | h
    · exact absurd h hz
    · simp [hz, h]
    · simp [hz, h]

/-- L4: a writer waiting for the write mutex is enabled as soon as the mutex is free; if it is not free, its holder
is enabled (`C14_lr_holder_enabled`) — no deadlock between readers and writers. -/
theorem C14_lr_lock_enabled (s : St) (t : Tid) (op : OpId) (h : s.pc t = .wCalled op) (hm : s.mtx = none) :
    (step s t .lock).isSome = true := by
  simp [step, h, hm]

/-! ## non-vacuity -/

/-- a reader completes `lock_shared` while writer 0 sits in the middle of its first application -/
example : ∃ s s', Reachable s ∧ s.pc 0 = .wF1 7 .L ∧ s.pc 1 = .rdCalled ∧
    run s [(1, .ldCL .L), (1, .inc .L 0), (1, .ldRL .L), (1, .ret (.ls 0))] = some s' ∧ s'.pc 1 = .rdHold .L .L ∧
    s'.pc 0 = .wF1 7 .L :=
  ⟨_, _, ⟨false, [(0, .call (.modify 7)), (0, .lock), (0, .ldRL .L), (0, .fBegin .R), (1, .call (.ls 0))], rfl⟩, rfl, rfl, rfl, rfl, rfl⟩

/-- writer 0 waits on a reader registered in L (strict mode: `cl = R`, so waiting on L is allowed); once the reader has
released, the load returns 0 and the second application starts -/
example : ∃ s s', Reachable s ∧ s.strict = true ∧ s.pc 0 = .wWait 7 .L false true ∧ step s 0 (.ldCnt .L 1) = some s ∧
    run s [(1, .call .rel), (1, .dec .L 1), (1, .ret .rel), (0, .ldCnt .L 0), (0, .fBegin .L)] = some s' ∧
    s'.pc 0 = .wF2 7 .L :=
  ⟨_, _, ⟨true, [(1, .call (.ls 0)), (1, .ldCL .L), (1, .inc .L 0), (1, .ldRL .L), (1, .ret (.ls 0)),
         (0, .call (.modify 7)), (0, .lock), (0, .ldRL .L), (0, .fBegin .R), (0, .fEnd .R [7]), (0, .stRL .R), (0, .ldCL .L),
         (0, .ldCnt .R 0), (0, .stCL .R)], rfl⟩, rfl, rfl, rfl, rfl, rfl⟩

/-- strict mode rejects a wait iteration on the counter new readers are directed to (the two loops swapped), which the
safety model accepts -/
example : ∃ s s', Reachable s ∧ Reachable s' ∧ s.strict = true ∧ s'.strict = false ∧ s.pc 0 = .wWait 7 .L false false ∧
    s.cl = .L ∧ step s 0 (.ldCnt .L 1) = none ∧ step s' 0 (.ldCnt .L 1) = some s' :=
  ⟨_, _, ⟨true, [(1, .call (.ls 0)), (1, .ldCL .L), (1, .inc .L 0), (1, .ldRL .L), (1, .ret (.ls 0)),
         (0, .call (.modify 7)), (0, .lock), (0, .ldRL .L), (0, .fBegin .R), (0, .fEnd .R [7]), (0, .stRL .R), (0, .ldCL .L)], rfl⟩,
   ⟨false, [(1, .call (.ls 0)), (1, .ldCL .L), (1, .inc .L 0), (1, .ldRL .L), (1, .ret (.ls 0)),
         (0, .call (.modify 7)), (0, .lock), (0, .ldRL .L), (0, .fBegin .R), (0, .fEnd .R [7]), (0, .stRL .R), (0, .ldCL .L)], rfl⟩,
   rfl, rfl, rfl, rfl, rfl, rfl⟩

/-- a stale reader (counting flag loaded before the writer flipped it) is about to register in the counter the next
modify waits on first -/
example : ∃ s, Reachable s ∧ s.pc 0 = .wWait 8 .R false false ∧ s.pc 1 = .rdCL .L ∧ s.cl = .R :=
  ⟨_, ⟨true, [(1, .call (.ls 0)), (1, .ldCL .L),
         (0, .call (.modify 7)), (0, .lock), (0, .ldRL .L), (0, .fBegin .R), (0, .fEnd .R [7]), (0, .stRL .R), (0, .ldCL .L),
         (0, .ldCnt .R 0), (0, .stCL .R), (0, .ldCnt .L 0), (0, .fBegin .L), (0, .fEnd .L [7]), (0, .unlock), (0, .ret (.modify 7)),
         (0, .call (.modify 8)), (0, .lock), (0, .ldRL .R), (0, .fBegin .L), (0, .fEnd .L [7, 8]), (0, .stRL .L), (0, .ldCL .R)],
      rfl⟩, rfl, rfl, rfl⟩

/-! ## Writer half, without fairness: what terminates and what does not

Environment events (`isEnv`, Proof/LRLive.lean): the calls (`lock_shared`, handle destruction, `modify`), the reads
through a held handle, the end-of-run observation.  A *progress step* (`Prog`) is a non-environment step that changes
the pc of its thread; every other non-environment step is an *idle step of the holder of the write mutex*
(`C14_lr_idle_step_is_spin`): a counter load that returns non-zero (a wait iteration) or a zero seen before, `yld`,
a store of `cl`, a redundant flag load — the stage-B writer model lets it repeat them at will.

A fairness-free "every `modify` terminates" is FALSE, for the model and for the code: while a client keeps a read
handle (or a registered reader is not scheduled) the writer's wait loop goes round for ever without any environment
event (`C14_lr_spin_can_go_on_for_ever`).  What holds for EVERY scheduler:
* `C14_lr_writer_terminates_partial`: no infinite execution consists, from some point on, of progress steps only;
  equivalently (`C14_lr_infinite_means_env_or_spin`) every infinite execution contains, after every point, an
  environment event or an idle step of the mutex holder;
* `C14_lr_spin_fails_only_registered`: a wait iteration (non-zero counter load) happens only while some reader is
  registered in that counter (between its increment and its decrement);
* `C14_lr_thread_cases` / `C14_lr_stuck_means_handles_held` (no deadlock, no livelock between readers and writers):
  in a reachable state in which no thread can make a progress step, every thread inside a call is a client keeping a
  read handle, a writer waiting for a counter ALL of whose registered readers are such clients, or a `modify` waiting
  for the mutex held by such a writer — "a writer is delayed only by read handles that are still held". -/

/-- no infinite execution consists of progress steps only from some point on -/
theorem C14_lr_writer_terminates_partial (x : Live.Exec step) (N : Nat) (ts : List Tid) (hnd : ts.Nodup)
    (hts : ∀ n, N ≤ n → x.who n ∈ ts)
    (hprog : ∀ n, N ≤ n → Prog (x.σ n) (x.who n) (x.ev n) (x.σ (n + 1))) : False :=
  Live.no_infinite_run_rel rankedRel ts hnd x N trivial hts hprog

/-- a non-environment step that is not a progress step is an idle step of the holder of the write mutex -/
theorem C14_lr_idle_step_is_spin {s s' : St} {t : Tid} {e : Ev} (hs : step s t e = some s') (he : isEnv e = false)
    (hn : ¬ Prog s t e s') : (s.pc t).post = true ∧ isWaitEv e = true ∧ s'.pc t = s.pc t := by
  have hpc : s'.pc t = s.pc t := Classical.byContradiction (fun h => hn ⟨he, h⟩)
  exact ⟨(idle_is_holder hs he hpc).1, (idle_is_holder hs he hpc).2, hpc⟩

/-- every infinite execution (threads from a finite set) contains after every point an environment event or an idle
step of the holder of the write mutex -/
theorem C14_lr_infinite_means_env_or_spin (x : Live.Exec step) (N : Nat) (ts : List Tid) (hnd : ts.Nodup)
    (hts : ∀ n, N ≤ n → x.who n ∈ ts) :
    ∃ n, N ≤ n ∧ (isEnv (x.ev n) = true ∨
      (((x.σ n).pc (x.who n)).post = true ∧ isWaitEv (x.ev n) = true ∧
        (x.σ (n + 1)).pc (x.who n) = (x.σ n).pc (x.who n))) := by
  apply Classical.byContradiction
  intro hno
  apply C14_lr_writer_terminates_partial x N ts hnd hts
  intro n hn
  cases he : isEnv (x.ev n) with
  | true => exact absurd ⟨n, hn, Or.inl he⟩ hno
  | false =>
    refine ⟨he, fun hpc => hno ⟨n, hn, Or.inr ?_⟩⟩
    exact ⟨(idle_is_holder (x.ok n) he hpc).1, (idle_is_holder (x.ok n) he hpc).2, hpc⟩

/-- a wait iteration happens only while a reader is registered in the counter waited for -/
theorem C14_lr_spin_fails_only_registered {s s' : St} (h : Reachable s) {w : Tid} {c : Side} {v : Nat}
    (hs : step s w (.ldCnt c v) = some s') (hv : v ≠ 0) : ∃ r, (s.pc r).regIn = some c := by
  have hi := (full_reachable h).inv
  have hlen : v = (s.reg c).length := by
    cases hp : s.pc w <;> simp [step, hp, Pc.post, stutter] at hs
    all_goals (first | exact hs.1 | skip)
  cases hr : s.reg c with
  | nil => rw [hr] at hlen; exact absurd hlen hv
  | cons r rest => exact ⟨r, (hi.mem r c).1 (by rw [hr]; simp)⟩

/-- every thread of a reachable state: idle, able to make a progress step, a client keeping a read handle, a
`modify` waiting for the write mutex, or a writer all of whose unseen counters have registered readers -/
theorem C14_lr_thread_cases {s : St} (h : Reachable s) (t : Tid) :
    s.pc t = .idle ∨ CanProg s t ∨ (∃ c, HoldsHandle s t c) ∨
    (∃ op, s.pc t = .wCalled op ∧ ∃ w, s.mtx = some w) ∨ WriterWaits s t :=
  thread_cases (full_reachable h).inv t

/-- a writer that cannot make a progress step waits for a counter all of whose registered readers — and there is
at least one — are clients keeping a read handle, provided no reader can make a progress step either -/
theorem C14_lr_waiting_writer_blockers {s : St} (h : Reachable s) (hstuck : ∀ u, ¬ CanProg s u) {w : Tid}
    (hw : WriterWaits s w) :
    ∃ c, s.reg c ≠ [] ∧ ∀ r, r ∈ s.reg c → HoldsHandle s r c := by
  have hi := (full_reachable h).inv
  obtain ⟨op, l, zL, zR, _, ⟨c, hc⟩, hall⟩ := hw
  refine ⟨c, hall c hc, fun r hr => ?_⟩
  have hreg := (hi.mem r c).1 hr
  rcases thread_cases hi r with h1 | h1 | ⟨c', x, h1⟩ | ⟨op', h1, _⟩ | ⟨op', l', a, b, h1, _⟩
  · rw [h1] at hreg; simp [Pc.regIn] at hreg
  · exact absurd h1 (hstuck r)
  · rw [h1] at hreg; simp only [Pc.regIn, Option.some.injEq] at hreg; subst hreg; exact ⟨x, h1⟩
  · rw [h1] at hreg; simp [Pc.regIn] at hreg
  · rw [h1] at hreg; simp [Pc.regIn] at hreg

/-- **no deadlock, no livelock between readers and writers**: in a reachable state in which no thread can make a
progress step, every thread inside a call is a client keeping a read handle, or a writer waiting for a counter all
of whose (at least one) registered readers are such clients, or a `modify` waiting for the write mutex held by such
a writer -/
theorem C14_lr_stuck_means_handles_held {s : St} (h : Reachable s) (hstuck : ∀ u, ¬ CanProg s u) (t : Tid)
    (ht : s.pc t ≠ .idle) :
    (∃ c, HoldsHandle s t c) ∨
    ((WriterWaits s t ∨ ∃ op w, s.pc t = .wCalled op ∧ s.mtx = some w ∧ WriterWaits s w) ∧
      ∃ c, s.reg c ≠ [] ∧ ∀ r, r ∈ s.reg c → HoldsHandle s r c) := by
  have hi := (full_reachable h).inv
  rcases thread_cases hi t with h1 | h1 | h1 | ⟨op, h1, w, hw⟩ | h1
  · exact absurd h1 ht
  · exact absurd h1 (hstuck t)
  · exact Or.inl h1
  · have hpost := (hi.holder w).2 hw
    have hww : WriterWaits s w := by
      rcases thread_cases hi w with h2 | h2 | ⟨c, x, h2⟩ | ⟨op', h2, _⟩ | h2
      · rw [h2] at hpost; simp [Pc.post] at hpost
      · exact absurd h2 (hstuck w)
      · rw [h2] at hpost; simp [Pc.post] at hpost
      · rw [h2] at hpost; simp [Pc.post] at hpost
      · exact h2
    exact Or.inr ⟨Or.inr ⟨op, w, h1, hw, hww⟩, C14_lr_waiting_writer_blockers h hstuck hww⟩
  · exact Or.inr ⟨Or.inl h1, C14_lr_waiting_writer_blockers h hstuck h1⟩

/-- … so once no handle is kept and nobody can make a progress step, every thread has returned -/
theorem C14_lr_stuck_no_handle_all_returned {s : St} (h : Reachable s) (hstuck : ∀ u, ¬ CanProg s u)
    (hnh : ∀ u c, ¬ HoldsHandle s u c) (t : Tid) : s.pc t = .idle := by
  apply Classical.byContradiction
  intro ht
  rcases C14_lr_stuck_means_handles_held h hstuck t ht with ⟨c, h1⟩ | ⟨_, c, hne, hall⟩
  · exact hnh t c h1
  · cases hr : s.reg c with
    | nil => exact hne hr
    | cons r rest => exact hnh r c (hall r (by rw [hr]; simp))

/-- why the exception is needed: with a read handle kept, the writer's wait iteration is a self-loop of the state —
an infinite execution without any environment event (non-strict and strict mode alike) -/
theorem C14_lr_spin_can_go_on_for_ever :
    ∃ s, Reachable s ∧ s.strict = true ∧ (∃ c, HoldsHandle s 1 c) ∧ WriterWaits s 0 ∧
      step s 0 (.ldCnt .L 1) = some s ∧ step s 0 .yld = some s ∧ isEnv (.ldCnt .L 1) = false :=
  ⟨_, ⟨true, [(1, .call (.ls 0)), (1, .ldCL .L), (1, .inc .L 0), (1, .ldRL .L), (1, .ret (.ls 0)),
         (0, .call (.modify 7)), (0, .lock), (0, .ldRL .L), (0, .fBegin .R), (0, .fEnd .R [7]), (0, .stRL .R), (0, .ldCL .L),
         (0, .ldCnt .R 0), (0, .stCL .R)], rfl⟩, rfl, ⟨.L, .L, rfl⟩,
   ⟨7, .L, false, true, rfl, ⟨.L, rfl⟩, by intro c hc; cases c <;> simp [zOf] at hc; decide⟩, rfl, rfl, rfl⟩

/-- non-vacuity of the progress side: in that state the reader's client releases the handle (environment), after
which reader and writer make progress steps only and everybody returns; total rank 8 + 0 before -/
example : ∃ s s', Reachable s ∧ μ s 0 = 8 ∧ μ s 1 = 0 ∧
    run s [(1, .call .rel), (1, .dec .L 1), (1, .ret .rel), (0, .ldCnt .L 0), (0, .fBegin .L), (0, .fEnd .L [7]),
           (0, .unlock), (0, .ret (.modify 7))] = some s' ∧ s'.pc 0 = .idle ∧ s'.pc 1 = .idle :=
  ⟨_, _, ⟨true, [(1, .call (.ls 0)), (1, .ldCL .L), (1, .inc .L 0), (1, .ldRL .L), (1, .ret (.ls 0)),
         (0, .call (.modify 7)), (0, .lock), (0, .ldRL .L), (0, .fBegin .R), (0, .fEnd .R [7]), (0, .stRL .R), (0, .ldCL .L),
         (0, .ldCnt .R 0), (0, .stCL .R)], rfl⟩, rfl, rfl, rfl, rfl, rfl⟩

end ConcVerif.LR
