import ConcVerif.Proof.CowFrame
/-! # C20, cow_guarded part — a throwing copy constructor never leaves the wrapper locked or half-modified

The only user code cow_guarded runs is T's copy constructor inside `lock()` (`new T(**data)`), between the left-right
read acquisition and its release, with the writer mutex held.  Theorems over `Model/Cow.lean` (every `Reachable` state;
the throw edge `uth` is part of the model, so every C04 / C14 theorem holds with throws included):
* `uth` is accepted only there; the unwinding is forced: release of the LR read handle (`rmw cnt -1`), `mul wm`, then the
  exception leaves `lock()` — each step enabled, none of them (nor any other step of `lock()`) touches a side of
  `m_data`, `committed`, `released`, the snapshot ledger or any payload; no payload object was constructed;
* afterwards the thread owns nothing: not the writer mutex, no LR registration — the wrapper is usable by everybody;
* the publication cannot throw: no `uth` is accepted anywhere inside the handle's destruction or `cancel()` (the commit
  functor `sptr = newPtr` is a `shared_ptr` assignment), so the roll-back / roll-forward branches of `lr_guarded::modify`
  are unreachable from cow_guarded. -/
namespace ConcVerif.Cow
open ConcVerif.LR (Side lk LK)

macro "cow_unfold20 " hs:ident : tactic => `(tactic|
  simp [stepIdle, stepRdA, stepRdH, stepRdP, stepRdD, stepDr, stepLkCalled, stepLkA, stepLkH, stepLkC, stepLkD, stepLkT,
    stepLkTD, stepLkExc, stepWHold, stepRelA, stepRelB, stepRelC, stepRelU, stepCn] at $hs:ident)

/-- pcs inside `lock()` -/
def Pc.inLock : Pc → Bool
  | .lkCalled | .lkA | .lkH _ | .lkC _ | .lkD _ | .lkT | .lkTD | .lkExc => true
  | _ => false

/-- The copy constructor can throw only where it runs: inside `lock()`, after the pointer of the held side has been
loaded; the thread then starts unwinding. -/
theorem C20_cow_throw_only_in_lock {s s' : St} {t : Tid} (hs : step s t .uth = some s') :
    ∃ src, s.pc t = .lkH (some src) ∧ s' = s.setPc t .lkT := by
  cases hp : s.pc t <;> simp only [step, hp] at hs <;> cow_unfold20 hs
  rename_i g
  cases g with
  | none => simp at hs
  | some src => exact ⟨src, rfl, hs.2.symm⟩

/-- The publication cannot throw: no `uth` is accepted while a thread owns a write handle, publishes, or cancels. -/
theorem C20_cow_commit_cannot_throw (s : St) (t : Tid)
    (hp : (∃ v, s.pc t = .wHold v) ∨ (∃ v, s.pc t = .relA v) ∨ (∃ v f, s.pc t = .relB v f) ∨ (∃ v, s.pc t = .relC v) ∨
      (∃ v, s.pc t = .relU v) ∨ ∃ v u d, s.pc t = .cn v u d) : step s t .uth = none := by
  rcases hp with ⟨v, h⟩ | ⟨v, h⟩ | ⟨v, f, h⟩ | ⟨v, h⟩ | ⟨v, h⟩ | ⟨v, u, d, h⟩ <;>
    simp [step, h, stepWHold, stepRelA, stepRelB, stepRelC, stepRelU, stepCn]

/-- ... hence the left-right model's roll-back / roll-forward positions are unreachable inside cow_guarded. -/
theorem C20_cow_no_rollback {s : St} (h : Reachable s) (t : Tid) :
    lk (s.lr.pc t) ≠ .other := by
  rw [(inv_reachable h).l.link t]; exact cls_ne_other _

/-- No step of `lock()` — normal or unwinding — publishes anything: the sides of `m_data`, `committed`, `released`, the
destroyed set and the snapshot ledger are untouched; only the copy constructor's success allocates (one fresh version). -/
theorem C20_cow_lock_publishes_nothing {s s' : St} {t : Tid} {e : Ev} (hp : (s.pc t).inLock = true)
    (hs : step s t e = some s') :
    s'.lr.valL = s.lr.valL ∧ s'.lr.valR = s.lr.valR ∧ s'.lr.committed = s.lr.committed ∧ s'.released = s.released ∧
      s'.dead = s.dead ∧ s'.snaps = s.snaps ∧ s'.det = s.det ∧
      ((s'.alloc = s.alloc ∧ s'.cont = s.cont) ∨ ∃ n a c, e = .pcp n a c) := by
  have fin : ∀ {l : LR.St} {p : Pc} {wm : Option Tid}, LR.Same s.lr l →
      (({ s with lr := l, wm := wm } : St).setPc t p).lr.valL = s.lr.valL ∧
      (({ s with lr := l, wm := wm } : St).setPc t p).lr.valR = s.lr.valR ∧
      (({ s with lr := l, wm := wm } : St).setPc t p).lr.committed = s.lr.committed ∧
      (({ s with lr := l, wm := wm } : St).setPc t p).released = s.released ∧
      (({ s with lr := l, wm := wm } : St).setPc t p).dead = s.dead ∧
      (({ s with lr := l, wm := wm } : St).setPc t p).snaps = s.snaps ∧
      (({ s with lr := l, wm := wm } : St).setPc t p).det = s.det ∧
      (((({ s with lr := l, wm := wm } : St).setPc t p).alloc = s.alloc ∧
        (({ s with lr := l, wm := wm } : St).setPc t p).cont = s.cont) ∨ ∃ n a c, e = .pcp n a c) :=
    fun hsm => ⟨hsm.valL, hsm.valR, hsm.committed, rfl, rfl, rfl, rfl, Or.inl ⟨rfl, rfl⟩⟩
  cases hq : s.pc t <;> rw [hq] at hp <;> simp [Pc.inLock] at hp <;> simp only [step, hq] at hs
  case lkCalled =>
    cases e <;> cow_unfold20 hs
    obtain ⟨_, l, h1, rfl⟩ := hs
    exact fin (LR.same_of_quiet rfl h1)
  case lkA =>
    cases e <;> (try (cow_unfold20 hs; done))
    rename_i e'
    cases e' <;> cow_unfold20 hs
    · obtain ⟨l, h1, rfl⟩ := hs; exact fin (wm := s.wm) (LR.same_of_quiet rfl h1)
    · obtain ⟨l, h1, rfl⟩ := hs; exact fin (wm := s.wm) (lrGot_same h1)
    · obtain ⟨l, h1, rfl⟩ := hs; exact fin (wm := s.wm) (LR.same_of_quiet rfl h1)
  case lkH g =>
    cases e <;> (try (cow_unfold20 hs; done))
    · cow_unfold20 hs
      obtain ⟨_, l, h1, rfl⟩ := hs; exact fin (wm := s.wm) (lrRd_same h1)
    · cow_unfold20 hs
      obtain ⟨_, rfl⟩ := hs
      exact ⟨rfl, rfl, rfl, rfl, rfl, rfl, rfl, Or.inr ⟨_, _, _, rfl⟩⟩
    · cow_unfold20 hs
      obtain ⟨_, rfl⟩ := hs; exact fin (l := s.lr) (wm := s.wm) (LR.Same.refl _)
  case lkC v =>
    cases e <;> (try (cow_unfold20 hs; done))
    rename_i e'
    cases e' <;> cow_unfold20 hs
    obtain ⟨l, h1, rfl⟩ := hs; exact fin (wm := s.wm) (lrRel_same h1)
  case lkD v =>
    cases e <;> (try (cow_unfold20 hs; done))
    rename_i c v'
    cases c <;> cow_unfold20 hs
    obtain ⟨_, rfl⟩ := hs; exact fin (l := s.lr) (wm := s.wm) (LR.Same.refl _)
  case lkT =>
    cases e <;> (try (cow_unfold20 hs; done))
    rename_i e'
    cases e' <;> cow_unfold20 hs
    obtain ⟨l, h1, rfl⟩ := hs; exact fin (wm := s.wm) (lrRel_same h1)
  case lkTD =>
    cases e <;> cow_unfold20 hs
    obtain ⟨_, rfl⟩ := hs; exact fin (l := s.lr) (LR.Same.refl _)
  case lkExc =>
    cases e <;> (try (cow_unfold20 hs; done))
    rename_i c
    cases c <;> cow_unfold20 hs
    subst hs; exact fin (l := s.lr) (wm := s.wm) (LR.Same.refl _)

/-- The unwinding is forced and never blocked: after the throw the thread releases the LR read handle, then the writer
mutex, then leaves `lock()` with the exception — in every reachable state exactly that next event is enabled. -/
theorem C20_cow_unwind_enabled {s : St} (h : Reachable s) {t : Tid}
    (hp : s.pc t = .lkT ∨ s.pc t = .lkTD ∨ s.pc t = .lkExc) : ∃ e, (step s t e).isSome = true := by
  have hi := inv_reachable h
  rcases hp with hp | hp | hp
  · obtain ⟨c, x, h1⟩ := LR.lk_hold (p := s.lr.pc t) (by rw [hi.l.link t, hp]; rfl)
    exact ⟨.lr (.dec c (s.lr.reg c).length), by simp [step, hp, stepLkT, lrRel, LR.step, h1]⟩
  · have hw : s.wm = some t := (hi.l.wmh t).mp (by rw [hp]; rfl)
    exact ⟨.ounlock, by simp [step, hp, stepLkTD, hw]⟩
  · exact ⟨.exc .lock, by simp [step, hp, stepLkExc]⟩

theorem C20_cow_unwind_forced {s s' : St} {t : Tid} {e : Ev} (hs : step s t e = some s') :
    (s.pc t = .lkT → (∃ c old, e = .lr (.dec c old)) ∧ s'.pc t = .lkTD) ∧
    (s.pc t = .lkTD → e = .ounlock ∧ s.wm = some t ∧ s'.wm = none ∧ s'.pc t = .lkExc) ∧
    (s.pc t = .lkExc → e = .exc .lock ∧ s'.pc t = .idle) := by
  refine ⟨?_, ?_, ?_⟩ <;> intro hp <;> simp only [step, hp] at hs
  · cases e <;> (try (cow_unfold20 hs; done))
    rename_i e'
    cases e' <;> cow_unfold20 hs
    obtain ⟨l, _, rfl⟩ := hs
    exact ⟨⟨_, _, rfl⟩, by simp⟩
  · cases e <;> cow_unfold20 hs
    obtain ⟨hw, rfl⟩ := hs
    exact ⟨rfl, hw, rfl, by simp⟩
  · cases e <;> (try (cow_unfold20 hs; done))
    rename_i c
    cases c <;> cow_unfold20 hs
    subst hs; exact ⟨rfl, by simp⟩

/-- When the exception leaves `lock()` the thread owns nothing: not the writer mutex, no LR read handle (it is idle
inside `m_data` and registered in no counter), no private copy — the wrapper stays usable by all threads: a `lock()` of
any thread is enabled as soon as the writer mutex is free (`C14_cow_lock_enabled`), readers are never affected
(`C14_cow_reader_enabled`). -/
theorem C20_cow_nothing_held {s : St} (h : Reachable s) {t : Tid} (hp : s.pc t = .lkExc) :
    s.wm ≠ some t ∧ s.lr.pc t = .idle ∧ (∀ c, t ∉ s.lr.reg c) ∧ s.lr.mtx ≠ some t ∧ (s.pc t).own = none := by
  have hi := inv_reachable h
  have hidle : s.lr.pc t = .idle := LR.lk_idle (by rw [hi.l.link t, hp]; rfl)
  refine ⟨?_, hidle, ?_, ?_, by rw [hp]; rfl⟩
  · intro hw
    have := (hi.l.wmh t).mpr hw
    rw [hp] at this; cases this
  · intro c hc
    have := (hi.l.full.inv.mem t c).mp hc
    rw [hidle] at this; cases this
  · intro hm
    have := (hi.l.full.inv.holder t).mpr hm
    rw [hidle] at this; cases this

/-! ## non-vacuity: a `lock()` whose copy constructor throws, observed on the real header, and the next `lock()` -/
def exThrow : List (Tid × Ev) :=
  [(1, .call .lock), (1, .olock), (1, .lr (.ldCL .L)), (1, .lr (.inc .L 0)), (1, .lr (.ldRL .L)), (1, .ldPtr .L 0),
   (1, .uth), (1, .lr (.dec .L 1)), (1, .ounlock), (1, .exc .lock)]

example : ∃ s, run (init false) (exThrow.take 7) = some s ∧ s.pc 1 = .lkT ∧ s.wm = some 1 ∧ s.lr.regL = [1] :=
  ⟨_, rfl, rfl, rfl, rfl⟩

example : ∃ s, run (init false) (exThrow.take 9) = some s ∧ s.pc 1 = .lkExc ∧ s.wm = none ∧ s.lr.regL = [] :=
  ⟨_, rfl, rfl, rfl, rfl⟩

/-- after the exception: nothing published, nothing allocated, and thread 2 locks, copies version 0 and releases -/
example : ∃ s, run (init false) (exThrow ++ [(2, .call .lock), (2, .olock), (2, .lr (.ldCL .L)), (2, .lr (.inc .L 0)),
    (2, .lr (.ldRL .L)), (2, .ldPtr .L 0), (2, .pcp 1 0 0), (2, .lr (.dec .L 1)), (2, .retGot .lock 1)]) = some s ∧
    s.pc 1 = .idle ∧ s.pc 2 = .wHold 1 ∧ s.lr.committed = [] ∧ s.alloc = [1, 0] ∧ s.wm = some 2 :=
  ⟨_, rfl, rfl, rfl, rfl, rfl, rfl⟩

end ConcVerif.Cow
