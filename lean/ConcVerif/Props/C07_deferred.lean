import ConcVerif.Proof.HBDeferred
/-! # C07 for `deferred_guarded` — the queued closure and the pending flag, at the level of the model

For EVERY trace accepted by the `deferred_guarded` model `Deferred.step` (the same `step` the observed
traces of `deferred_guarded.hpp` are checked against), mapped to happens-before events
(`Deferred.toHB o`, with `o : FlagOrds` the memory orders of the load and the store of
`m_pendingWrites` — ARBITRARY, `relaxed` included):

whenever a thread enters the function of task `k` (`ucb k`), either it is the submitting thread on the
direct path (it holds `m` exclusively, nothing is queued for it: the closure never left the thread),
or `k` was queued: the `unlock` of the queue mutex that ended the push of `k` (position `p`, thread at
`qPush k`) happens-before the entry.  The edge is `unlock qm → lock qm` of `m_pendingList` alone.

So the orders of the flag do NOT matter for data-race freedom of the queued payload: a store / load of
`m_pendingWrites` is never the edge that publishes a closure.  What they matter for is liveness: that
the `true` stored after the push is seen by the next `do_pending_writes` (no-stranding, C06 — a theorem
about interleavings, i.e. it presupposes the seq_cst semantics the code uses).

Not part of this file: the wrapped object itself (protected by `m`, exclusive for the functions,
shared for readers) — see `Props/C07_deferred_obj.lean` (model-level) and the observed traces (`hb-deferred`). -/
namespace ConcVerif.Deferred

/-- **Queued closure, step form.**  After any accepted trace `es`, if the model accepts `ucb j` by
thread `t`: direct path, or the push of `j` happens-before the entry — for any flag orders `o`. -/
theorem C07_deferred_flag {spur : Bool} (o : FlagOrds) {es : List (Tid × Ev)} {s s' : St} {t : Tid} {j : TaskId}
    (h : run spur es = some s) (hs : step s t (.ucb j) = some s') :
    (s.batch = [] ∧ ∃ a, s.pc t = .dRun (.mod j a)) ∨
    ∃ p, Pushed spur es p j ∧ HB.HB (hbTrace o (es ++ [(t, .ucb j)])) p es.length :=
  closure_hb o h hs

/-- **Queued closure, trace form.**  In every accepted trace, for every entry `ucb k` at position `j`:
direct path, or there is an earlier position `p` that ended the push of `k` and happens-before `j`. -/
theorem C07_deferred_flag_trace {spur : Bool} (o : FlagOrds) {es : List (Tid × Ev)} {s : St} {t : Tid} {k : TaskId}
    {j : Nat} (h : run spur es = some s) (hj : es[j]? = some (t, .ucb k)) :
    (∃ s1 a, run spur (es.take j) = some s1 ∧ s1.batch = [] ∧ s1.pc t = .dRun (.mod k a)) ∨
    ∃ p, p < j ∧ Pushed spur es p k ∧ HB.HB (hbTrace o es) p j := by
  obtain ⟨s1, s2, h1, h2⟩ := HB.runFrom_at h hj
  have hjl : j < es.length := HB.lq_lt hj
  have hlen : (es.take j).length = j := by simp [List.length_take]; omega
  rcases closure_hb o h1 h2 with ⟨hb, a, hpc⟩ | ⟨p, hp, hhb⟩
  · exact .inl ⟨s1, a, h1, hb, hpc⟩
  · right
    have hpj : p < j := by
      obtain ⟨_, _, _, _, _, h3⟩ := hp
      have := HB.lq_lt h3; omega
    have hp' : Pushed spur es p k := by
      have := hp.mono (es.drop j); rwa [List.take_append_drop] at this
    refine ⟨p, hpj, hp', ?_⟩
    have e1 : es.take (j + 1) = es.take j ++ [(t, Ev.ucb k)] := by rw [List.take_add_one, hj]; rfl
    have := hhb.mono (hbTrace o (es.drop (j + 1)))
    rw [← hbTrace_append, ← e1, List.take_append_drop, hlen] at this
    exact this

/-- thread 1 holds a shared handle; thread 2 calls `modify_detach` (task 7): the try-lock fails, the
closure is queued and the flag raised; thread 1 releases; thread 3 calls `lock_shared`, sees the flag,
takes `m`, drains the queue and runs task 7 -/
def hbWitness : List (Tid × Ev) :=
  [(1, .callSh .block), (1, .fld false), (1, .slk), (1, .got true),
   (2, .callMod 7 false), (2, .mtl false), (2, .qlk), (2, .qul), (2, .fst true), (2, .ret),
   (1, .sul),
   (3, .callSh .block), (3, .fld true), (3, .mtl true), (3, .fld true), (3, .fst false), (3, .qlk), (3, .qul),
   (3, .ucb 7), (3, .pwr 5), (3, .uce 7 0), (3, .mul), (3, .slk), (3, .got true)]

/-- the trace is accepted, position 7 ends the push of task 7, position 18 enters its function in
another thread — and 7 happens-before 18 even with BOTH flag operations relaxed -/
example : ∃ s, run false hbWitness = some s ∧ hbWitness[7]? = some (2, .qul) ∧ hbWitness[18]? = some (3, .ucb 7) ∧
    HB.HB (hbTrace { ld := .rlx, st := .rlx } hbWitness) 7 18 :=
  ⟨_, rfl, rfl, rfl,
    .trans (j := 16) (.sw (.mutex (i := 7) (j := 16) (md := .X) (md' := .X) (m := 1) (t := 2) (u := 3) (by decide) rfl rfl
      (.inl rfl))) (.po (i := 16) (j := 18) (t := 3) (by decide) rfl rfl)⟩

/-- the theorem applies to it (queued case) -/
example : ∃ p, p < 18 ∧ Pushed false hbWitness p 7 ∧ HB.HB (hbTrace { ld := .rlx, st := .rlx } hbWitness) p 18 := by
  rcases C07_deferred_flag_trace (spur := false) { ld := .rlx, st := .rlx } (s := _) (es := hbWitness) (j := 18) (t := 3)
    (k := 7) rfl rfl with ⟨s1, a, h1, hb, _⟩ | h
  · exfalso
    have : run false (hbWitness.take 18) = some s1 := h1
    have e : (run false (hbWitness.take 18)).map (fun s => s.batch) = some [7] := rfl
    rw [this] at e; simp at e; rw [hb] at e; cases e
  · exact h

/-- the whole mapped trace (wrapped object included) is race free with relaxed flag operations -/
example : HB.raceFree (hbTrace { ld := .rlx, st := .rlx } hbWitness) = true := by decide

end ConcVerif.Deferred
