import ConcVerif.Proof.CowFrame
/-! # C04 — cow_guarded snapshots are immutable; commits are atomic and never lost

Theorems over the executable model `Model/Cow.lean` (`step` is the function the trace driver runs on the traces of the
real `cow_guarded.hpp`; the model embeds the left-right model `Model/LR.lean` and delegates every primitive operation on
`m_data` to `LR.step`, so the C03 theorems hold for `s.lr`).  All statements quantify over every `Reachable` state /
every accepted trace: any number of threads, writers (lock, write, release | cancel | move), readers that keep any
number of snapshots for any time, and interleavings.

Reading guide: `(u, v) ∈ s.snaps` — thread `u` owns a snapshot handle (`shared_ptr<const T>`, in flight inside
`lock_shared` or held by the client) of version `v`; `s.sv x` — the version side `x` of `m_data` points to;
`s.lr.committed` — the versions committed so far, in commit order (a version is committed by the store that flips
`m_readingLeft`); `s.pub v` — `v` is the constructor's version or has been installed on a side; `s.cont v` — payload
value; `s.dead` — destroyed versions; `s.wm` — owner of `cow_guarded::m_writeMutex`; `s.det = some x` — the writer is
inside the assignment `sptr = newPtr` on side `x`; pcs `lkA … lkD` = inside `lock()`, `wHold v` = the client owns the
write handle with private copy `v`, `relA/relB/relC v` = inside the handle's destruction (publication of `v`),
`relU v` = writer mutex released, `cn v u d` = inside `cancel()`. -/
namespace ConcVerif.Cow
open ConcVerif.LR (Side lk LK)

/-- unfold every per-pc step function -/
macro "cow_unfold " hs:ident : tactic => `(tactic|
  simp [stepIdle, stepRdA, stepRdH, stepRdP, stepRdD, stepDr, stepLkCalled, stepLkA, stepLkH, stepLkC, stepLkD, stepLkT, stepLkTD,
    stepLkExc, stepWHold, stepRelA, stepRelB, stepRelC, stepRelU, stepCn] at $hs:ident)

/-! ## a snapshot is immutable: every write goes to a private, unpublished copy -/

/-- A payload is written only through the write handle that owns it: the writing thread holds the writer mutex, the
version is private — never installed on a side, not committed, no snapshot handle names it — and no other payload
changes. -/
theorem C04_write_private {s s' : St} (h : Reachable s) {t : Tid} {v : Ver} {c : Nat} (hs : step s t (.pwr v c) = some s') :
    s.pc t = .wHold v ∧ s.wm = some t ∧ ¬ s.pub v ∧ v ∉ s.lr.committed ∧ (∀ u, (u, v) ∉ s.snaps) ∧ (∀ x, s.sv x ≠ v) ∧
      ∀ w, w ≠ v → s'.cont w = s.cont w := by
  have hi := inv_reachable h
  cases hp : s.pc t <;> simp only [step, hp] at hs <;> cow_unfold hs
  obtain ⟨rfl, rfl⟩ := hs
  obtain ⟨_, _, hnp⟩ := hi.h.ownOk t v (by rw [hp]; rfl)
  refine ⟨rfl, (hi.l.wmh t).mp (by rw [hp]; rfl), hnp, fun hc => hnp (hi.c.comPub v hc),
    fun u hu => hnp (hi.h.snapsOk u v hu).1, fun x hx => hnp (hx ▸ sv_pub s x), ?_⟩
  intro w hw; simp [hw]

/-- Step form of immutability: no step of any thread changes the value of a published version — in particular of any
version a snapshot handle names (`C04_snapshot_value_constant`). -/
theorem C04_snapshot_immutable {s s' : St} (h : Reachable s) {t : Tid} {e : Ev} {v : Ver} (hs : step s t e = some s')
    (hv : s.pub v) : s'.cont v = s.cont v := by
  have hi := inv_reachable h
  cases e with
  | pwr w c =>
    obtain ⟨_, _, hnp, _, _, _, hc⟩ := C04_write_private h hs
    exact hc v (fun e => hnp (e ▸ hv))
  | pcp n a c =>
    cases hp : s.pc t <;> simp only [step, hp] at hs <;> cow_unfold hs
    obtain ⟨⟨_, hn, _⟩, rfl⟩ := hs
    have : v ≠ n := fun e => hn (e ▸ hi.h.pubAlloc v hv)
    simp [this]
  | _ => exact congrFun ((frame_step hs).cont (by intro _ _ h; cases h) (by intro _ _ _ h; cases h)) v

theorem C04_snapshot_value_constant {s s' : St} (h : Reachable s) {t u : Tid} {e : Ev} {v : Ver}
    (hs : step s t e = some s') (hu : (u, v) ∈ s.snaps) : s'.cont v = s.cont v :=
  C04_snapshot_immutable h hs ((inv_reachable h).h.snapsOk u v hu).1

/-- A read through a snapshot handle (or through the write handle) returns the version's value. -/
theorem C04_read_observes {s s' : St} {t : Tid} {v : Ver} {c : Nat} (hs : step s t (.prd v c) = some s') :
    c = s.cont v ∧ s' = s ∧ ((t, v) ∈ s.snaps ∨ s.pc t = .wHold v) := by
  cases hp : s.pc t <;> simp only [step, hp] at hs <;> cow_unfold hs
  · obtain ⟨⟨h1, rfl⟩, rfl⟩ := hs; exact ⟨rfl, rfl, Or.inl h1⟩
  · obtain ⟨⟨h1, rfl⟩, rfl⟩ := hs
    rcases h1 with rfl | h1
    · exact ⟨rfl, rfl, Or.inr rfl⟩
    · exact ⟨rfl, rfl, Or.inl h1⟩

/-! ## a snapshot stays valid: versions are destroyed only when nothing refers to them (ghost reference ledger) -/

/-- The version a snapshot handle names is allocated and not destroyed. -/
theorem C04_snapshot_alive {s : St} (h : Reachable s) {u : Tid} {v : Ver} (hu : (u, v) ∈ s.snaps) :
    v ∉ s.dead ∧ v ∈ s.alloc ∧ s.pub v :=
  have hi := inv_reachable h
  ⟨(hi.h.snapsOk u v hu).2, hi.h.pubAlloc v (hi.h.snapsOk u v hu).1, (hi.h.snapsOk u v hu).1⟩

/-- The version a side points to is alive, except for the old version of the side inside an open assignment window
(which no read handle can point to: `C04_window_untouched`). -/
theorem C04_side_alive {s : St} (h : Reachable s) {x : Side} (hx : s.det ≠ some x) : s.sv x ∉ s.dead :=
  (inv_reachable h).h.sidesOk x hx

theorem C04_window_untouched {s : St} (h : Reachable s) {r : Tid} {c x : Side} (hr : s.lr.pc r = .rdHold c x) :
    s.det ≠ some x :=
  held_not_det (inv_reachable h).l hr

/-- A private copy is alive, allocated and unpublished as long as its handle owns it. -/
theorem C04_private_alive {s : St} (h : Reachable s) {t : Tid} {v : Ver} (hp : (s.pc t).own = some v) :
    v ∈ s.alloc ∧ v ∉ s.dead ∧ ¬ s.pub v :=
  (inv_reachable h).h.ownOk t v hp

theorem C04_no_window_when_quiet {s : St} (h : Reachable s) (hm : s.lr.mtx = none) : s.det = none := by
  have hi := inv_reachable h
  cases hd : s.det with
  | none => rfl
  | some y =>
    obtain ⟨w, hw⟩ := hi.l.win y hd
    have := (hi.l.full.inv.holder w).mp (writing_post hw)
    rw [hm] at this; cases this

/-- In-flight copy inside `lock()`: the source of the copy is the latest committed version, both sides point to it, and
it is alive. -/
theorem C04_copy_source_alive {s : St} (h : Reachable s) {t : Tid} {src : Ver} (hp : s.pc t = .lkH (some src)) :
    src = cur s.lr.committed ∧ (∀ x, s.sv x = src) ∧ s.det = none ∧ src ∉ s.dead := by
  have hi := inv_reachable h
  have hw : s.wm = some t := (hi.l.wmh t).mp (by rw [hp]; rfl)
  have hk : lk (s.lr.pc t) = .hold := by rw [hi.l.link t, hp]; rfl
  have hq := quiet_of_holder hi.l hw (LR.lk_hold_not_post hk)
  have hd := C04_no_window_when_quiet h hq
  have hsrc := hi.c.src t src hp
  have hsv : ∀ x, s.sv x = src := fun x => by rw [hsrc]; simp [St.sv, val_committed hi.l hq x]
  exact ⟨hsrc, hsv, hd, hsv .L ▸ hi.h.sidesOk .L (by rw [hd]; simp)⟩

/-- Destruction: `pdt v` is accepted only when `v` has not been destroyed before and nothing refers to it — no snapshot
handle (in flight or held), no side outside an assignment window, no copy in progress, no other thread's write handle. -/
theorem C04_destroy_unreferenced {s s' : St} (h : Reachable s) {t : Tid} {v : Ver} (hs : step s t (.pdt v) = some s') :
    v ∉ s.dead ∧ (∀ u, (u, v) ∉ s.snaps) ∧ (∀ x, s.det ≠ some x → s.sv x ≠ v) ∧
      (∀ u src, s.pc u = .lkH (some src) → src ≠ v) ∧ (∀ u, u ≠ t → (s.pc u).own ≠ some v) ∧ s'.dead = v :: s.dead := by
  have hi := inv_reachable h
  have hcopy : (∀ x, s.det ≠ some x → s.sv x ≠ v) → ∀ u src, s.pc u = .lkH (some src) → src ≠ v := by
    intro hx u src hu
    obtain ⟨_, hsv, hd, _⟩ := C04_copy_source_alive h hu
    exact hsv .L ▸ hx .L (by rw [hd]; simp)
  have hpubcase : s.pub v → s.refd v = false → v ∉ s.dead → v ∉ s.dead ∧ (∀ u, (u, v) ∉ s.snaps) ∧
      (∀ x, s.det ≠ some x → s.sv x ≠ v) ∧ (∀ u src, s.pc u = .lkH (some src) → src ≠ v) ∧
      (∀ u, u ≠ t → (s.pc u).own ≠ some v) := by
    intro hpub hrf hnd
    obtain ⟨hox, hos⟩ := refd_false hrf
    exact ⟨hnd, hos, hox, hcopy hox, fun u _ hu => own_not_pub hi hu hpub rfl⟩
  cases hp : s.pc t <;> simp only [step, hp] at hs <;> cow_unfold hs
  case dr v0 need =>
    -- snapshot drop
    obtain ⟨⟨rfl, _, hnd, hrf⟩, rfl⟩ := hs
    obtain ⟨a, b, c, d, e⟩ := hpubcase (hi.h.drPub t _ _ hp) hrf hnd
    exact ⟨a, b, c, d, e, rfl⟩
  case relB v0 f0 =>
    -- the writer, inside its assignment window
    obtain ⟨⟨hwin, hnd, hrf⟩, rfl⟩ := hs
    have hpub : s.pub v := by
      simp only [St.winRef] at hwin
      cases hd : s.det with
      | none => rw [hd] at hwin; simp at hwin
      | some x => rw [hd] at hwin; simp at hwin; exact hwin ▸ sv_pub s x
    obtain ⟨a, b, c, d, e⟩ := hpubcase hpub hrf hnd
    exact ⟨a, b, c, d, e, rfl⟩
  case cn v0 u0 d0 =>
    -- cancel: the private copy
    obtain ⟨⟨rfl, rfl⟩, rfl⟩ := hs
    have hown : (s.pc t).own = some v := by rw [hp]; rfl
    obtain ⟨_, a2, a3⟩ := hi.h.ownOk t v hown
    have hx : ∀ x, s.det ≠ some x → s.sv x ≠ v := fun x _ hx => a3 (hx ▸ sv_pub s x)
    exact ⟨a2, fun u hu => a3 (hi.h.snapsOk u v hu).1, hx, hcopy hx,
      fun u hut hu => hi.h.ownUniq u t v hut hu hown, rfl⟩

/-- ... and is not optional.  A thread that removed the last reference outside any assignment window can do nothing but
destroy the version. -/
theorem C04_last_drop_destroys {s s' : St} {t : Tid} {e : Ev} {v : Ver} (hp : s.pc t = .dr v .must)
    (hs : step s t e = some s') : e = .pdt v := by
  simp only [step, hp] at hs
  cases e with
  | pdt v' => cow_unfold hs; rw [hs.1.1]
  | ret c => cases c <;> cow_unfold hs
  | _ => cow_unfold hs

/-- How the dropping thread decides (`needOf`): other references remain (`no`), only the side inside the open assignment
window still points to the version (`maybe`: that side's reference is given up at a moment the trace does not show, so
either the dropping thread or the writer destroys — `C04_window_close` makes sure one of them does), or none (`must`). -/
theorem C04_drop_decision {s s' : St} {t : Tid} {v : Ver} (hs : step s t (.call (.drop v)) = some s') :
    (t, v) ∈ s.snaps ∧ s'.snaps = s.snaps.erase (t, v) ∧ s'.pc t = .dr v (s'.needOf v) := by
  cases hp : s.pc t <;> simp only [step, hp] at hs <;> cow_unfold hs
  obtain ⟨hm, rfl⟩ := hs
  exact ⟨hm, rfl, by simp only [setPc_pc, if_true]; rfl⟩

/-- An assignment window on side `x` cannot be closed while the version `x` pointed to is neither referenced nor
destroyed: together with `C04_destroy_unreferenced` — a version is destroyed exactly when its last reference goes. -/
theorem C04_window_close {s s' : St} {t : Tid} {x : Side} (hs : step s t (.stCtl x) = some s') :
    s.det = some x ∧ (s.sv x ∈ s.dead ∨ s.refd (s.sv x) = true) := by
  cases hp : s.pc t <;> simp only [step, hp] at hs <;> cow_unfold hs <;> exact hs.1

/-- Trace form: from the moment a snapshot handle exists until its owner drops it, whatever all threads do in between —
any number of commits, cancels, other snapshots taken and dropped — the handle keeps naming the same version, the
version's value does not change and the version is not destroyed. -/
theorem C04_snapshot_stable {s s' : St} {es : List (Tid × Ev)} {u : Tid} {v : Ver} (h : Reachable s)
    (hrun : run s es = some s') (hu : (u, v) ∈ s.snaps) (hno : (u, Ev.call (.drop v)) ∉ es) :
    (u, v) ∈ s'.snaps ∧ s'.cont v = s.cont v ∧ v ∉ s'.dead := by
  induction es generalizing s with
  | nil =>
    simp [run] at hrun; subst hrun
    exact ⟨hu, rfl, (C04_snapshot_alive h hu).1⟩
  | cons a es ih =>
    obtain ⟨t, e⟩ := a
    simp only [run, runFrom_cons] at hrun
    cases hst : step s t e with
    | none => simp [hst] at hrun
    | some s1 =>
      simp [hst] at hrun
      have hu1 : (u, v) ∈ s1.snaps := (frame_step hst).snaps u v hu (by
        rintro ⟨rfl, rfl⟩; exact hno (by simp))
      have hc : s1.cont v = s.cont v := C04_snapshot_value_constant h hst hu
      have := ih (reachable_step h hst) hrun hu1 (fun hm => hno (List.mem_cons_of_mem _ hm))
      exact ⟨this.1, by rw [this.2.1, hc], this.2.2⟩

/-! ## writers are serialised from lock() until release / cancel -/

/-- The writer mutex is owned exactly by the threads between `mlk wm` inside `lock()` and `mul wm` inside the handle's
destruction / `cancel()` / the unwinding of a throwing `lock()` (`Pc.holds`) — in particular by every thread that owns a
write handle or is publishing — and by at most one thread. -/
theorem C04_writers_serial {s : St} (h : Reachable s) {t : Tid} : (s.pc t).holds = true ↔ s.wm = some t :=
  (inv_reachable h).l.wmh t

theorem C04_writers_exclusive {s : St} (h : Reachable s) {t u : Tid} (ht : (s.pc t).holds = true) (hu : (s.pc u).holds = true) :
    t = u := by
  have h1 := (C04_writers_serial h).mp ht
  have h2 := (C04_writers_serial h).mp hu
  rw [h1] at h2; injection h2

theorem C04_handle_owns_mutex {s : St} (h : Reachable s) {t : Tid} {v : Ver} (hp : s.pc t = .wHold v) : s.wm = some t :=
  (C04_writers_serial h).mp (by rw [hp]; rfl)

/-- `m_data.modify` runs only inside the writer-mutex section: a thread holding `m_data`'s write mutex owns `wm`. -/
theorem C04_publication_inside {s : St} (h : Reachable s) {t : Tid} (hp : s.lr.mtx = some t) : s.wm = some t :=
  have hi := inv_reachable h
  post_holds hi.l ((hi.l.full.inv.holder t).mpr hp)

/-- At most one private copy is on its way to being committed. -/
theorem C04_one_private_copy {s : St} (h : Reachable s) {t u : Tid} {v w : Ver} (ht : (s.pc t).carry = some v)
    (hu : (s.pc u).carry = some w) : t = u ∧ v = w := by
  have := C04_writers_exclusive h (carry_holds ht) (carry_holds hu)
  subst this
  rw [ht] at hu; injection hu with hu
  exact ⟨rfl, hu⟩

/-- `mlk wm` is granted only when nobody owns the writer mutex. -/
theorem C04_lock_waits {s s' : St} {t : Tid} (hs : step s t .olock = some s') : s.wm = none ∧ s'.wm = some t := by
  cases hp : s.pc t <;> simp only [step, hp] at hs <;> cow_unfold hs
  obtain ⟨h0, l, _, rfl⟩ := hs
  exact ⟨h0, rfl⟩

/-! ## each write handle starts from the latest committed value -/

/-- `lock()` copies the latest committed version: the copy constructor's source is `cur committed` (both sides point to
it), the copy starts with its value, is fresh, and the copying thread owns the writer mutex. -/
theorem C04_starts_from_latest {s s' : St} (h : Reachable s) {t : Tid} {new src : Ver} {c : Nat}
    (hs : step s t (.pcp new src c) = some s') :
    src = cur s.lr.committed ∧ (∀ x, s.sv x = src) ∧ c = s.cont src ∧ s'.cont new = s.cont src ∧ s'.parent new = src ∧
      new ∉ s.alloc ∧ s.wm = some t ∧ s'.pc t = .lkC new := by
  cases hp : s.pc t <;> simp only [step, hp] at hs <;> cow_unfold hs
  obtain ⟨⟨rfl, hn, rfl⟩, rfl⟩ := hs
  obtain ⟨h1, h2, _, _⟩ := C04_copy_source_alive h hp
  exact ⟨h1, h2, rfl, by simp, by simp, hn, (C04_writers_serial h).mp (by rw [hp]; rfl), by simp⟩

/-- ... and it still is the latest when the handle is released: as long as a thread carries a private copy (from the copy
constructor to the flip that commits it) the copy's parent is the latest committed version — nobody commits in between. -/
theorem C04_still_latest {s : St} (h : Reachable s) {t : Tid} {v : Ver} (hp : (s.pc t).carry = some v) :
    s.parent v = cur s.lr.committed :=
  (inv_reachable h).c.top t v hp

/-- The commit: the flip of `m_readingLeft` by the publishing thread appends its version — whose parent is the version
committed just before — to `committed`; no other step changes `committed`. -/
theorem C04_commit_step {s s' : St} (h : Reachable s) {t : Tid} {e : Ev} (hs : step s t e = some s') :
    s'.lr.committed = s.lr.committed ∨
      ∃ v y, e = .lr (.stRL y) ∧ s.pc t = .relB v false ∧ s.wm = some t ∧ s.parent v = cur s.lr.committed ∧
        s'.lr.committed = s.lr.committed ++ [v] := by
  have hi := inv_reachable h
  by_cases hst : ∃ y, e = .lr (.stRL y)
  · obtain ⟨y, rfl⟩ := hst
    right
    cases hp : s.pc t <;> simp only [step, hp] at hs <;> cow_unfold hs
    · simp [neutral] at hs
    · rename_i v f
      obtain ⟨rfl, l, hl, rfl⟩ := hs
      have hk : lk (s.lr.pc t) = .wB v := by rw [hi.l.link t, hp]; rfl
      obtain ⟨_, hcm, _⟩ := LR.step_wB_stRL hk hl
      exact ⟨v, y, rfl, rfl, (C04_writers_serial h).mp (by rw [hp]; rfl), hi.c.top t v (by rw [hp]; rfl), hcm⟩
  · left
    exact (frame_step hs).committed (fun y he => hst ⟨y, he⟩)

/-! ## commits form a chain: no update is lost -/

/-- Each committed version was copied from the version committed just before it (the first one from the constructor's
version 0). -/
theorem C04_chain {s : St} (h : Reachable s) : Chain s.parent 0 s.lr.committed := (inv_reachable h).c.chain

theorem C04_chain_first {s : St} (h : Reachable s) {v : Ver} {l : List Ver} (hc : s.lr.committed = v :: l) : s.parent v = 0 := by
  have := C04_chain h
  rw [hc] at this
  exact this.1

theorem C04_chain_next {s : St} (h : Reachable s) {a b : Ver} {l1 l2 : List Ver} (hc : s.lr.committed = l1 ++ a :: b :: l2) :
    s.parent b = a := by
  have hch := C04_chain h
  rw [hc] at hch
  have : ∀ (l : List Ver) (p : Ver), Chain s.parent p (l ++ a :: b :: l2) → s.parent b = a := by
    intro l
    induction l with
    | nil => intro p hp; exact hp.2.1
    | cons x l ih => intro p hp; exact ih x hp.2
  exact this l1 0 hch

/-- No lost update: the committed versions are exactly the versions whose release has unlocked the writer mutex, in that
order, plus the one the current owner of the writer mutex has committed but not yet unlocked.  Whenever the writer mutex
is free: `committed = released` — as many committed versions as (non-cancelled) releases. -/
theorem C04_no_lost_update {s : St} (h : Reachable s) :
    (s.wm = none → s.lr.committed = s.released) ∧
      (∀ t, s.wm = some t → s.lr.committed = s.released ++ ((s.pc t).pend).toList) ∧ s.released <+: s.lr.committed := by
  have hi := inv_reachable h
  refine ⟨hi.c.rel0, hi.c.rel, ?_⟩
  cases hw : s.wm with
  | none => rw [hi.c.rel0 hw]; exact List.prefix_refl _
  | some t => rw [hi.c.rel t hw]; exact List.prefix_append _ _

/-- `released` grows by exactly the released version at the `mul wm` of a release, and by nothing else. -/
theorem C04_released_step {s s' : St} {t : Tid} {e : Ev} (hs : step s t e = some s') :
    s'.released = s.released ∨ ∃ v, s.pc t = .relC v ∧ e = .ounlock ∧ s'.released = s.released ++ [v] := by
  cow_step_cases hs e => first
    | (subst hs; exact Or.inl rfl)
    | (obtain ⟨_, rfl⟩ := hs; exact Or.inl rfl)
    | (obtain ⟨l, hl, rfl⟩ := hs; exact Or.inl rfl)
    | (obtain ⟨_, l, hl, rfl⟩ := hs; first | exact Or.inl rfl | exact Or.inr ⟨_, by assumption, rfl, rfl⟩)

/-- While nobody is publishing, both sides of `m_data` point to the latest committed version. -/
theorem C04_sides_latest {s : St} (h : Reachable s) (hm : s.lr.mtx = none) (x : Side) : s.sv x = cur s.lr.committed := by
  simp [St.sv, val_committed (inv_reachable h).l hm x]

/-- The end-of-run observation: both sides point to the last released version, which carries the observed value. -/
theorem C04_final {s s' : St} (h : Reachable s) {t : Tid} {vl vr : Ver} {c : Nat} (hs : step s t (.fin vl vr c) = some s') :
    vl = cur s.released ∧ vr = vl ∧ s.lr.committed = s.released ∧ c = s.cont vl := by
  cases hp : s.pc t <;> simp only [step, hp] at hs <;> cow_unfold hs
  obtain ⟨⟨hw, hm, rfl, rfl, rfl⟩, _⟩ := hs
  have hc := (C04_no_lost_update h).1 hw
  rw [C04_sides_latest h hm, C04_sides_latest h hm, hc]
  exact ⟨rfl, rfl, rfl, rfl⟩

/-! ## a release publishes to every later lock_shared -/

/-- The copy made by a `lock_shared` form (or by `lock()`) reads the pointer of the side the LR read handle points to. -/
theorem C04_copy_reads_held_side {s s' : St} {t : Tid} {x : Side} {u : Ver} (hs : step s t (.ldPtr x u) = some s') :
    u = cur (s.lr.val x) ∧ ∃ c, s.lr.pc t = .rdHold c x := by
  cases hp : s.pc t <;> simp only [step, hp] at hs <;> cow_unfold hs
  all_goals
    obtain ⟨⟨_, rfl⟩, l, hl, _⟩ := hs
    obtain ⟨_, _, c, hc, _⟩ := LR.lrRd_spec hl
    exact ⟨rfl, c, hc⟩

/-- Trace form.  The release of version `v` by thread `w` returns (event `ret release`, from `s0` to `s1`); thread `r` is
idle at that point, so whatever `lock_shared` it makes is called later.  Whenever `r` then copies the `shared_ptr` out of
the side its read handle points to, the version `u` it obtains is the last element of a prefix `s2.lr.val x` of the commit
order which extends everything committed when the release returned and contains `v`: `u` is `v` or a version committed
after `v` — never an older one. -/
theorem C04_publish {s0 s1 s2 s3 : St} {es : List (Tid × Ev)} {w r : Tid} {v u : Ver} {x : Side} (h0 : Reachable s0)
    (hv : s0.pc w = .relU v) (hret : step s0 w (.ret .release) = some s1) (hidle : s1.pc r = .idle)
    (hrun : run s1 es = some s2) (hcopy : step s2 r (.ldPtr x u) = some s3) :
    u = cur (s2.lr.val x) ∧ s0.lr.committed <+: s2.lr.val x ∧ v ∈ s2.lr.val x ∧ s2.lr.val x <+: s2.lr.committed := by
  have hi0 := inv_reachable h0
  have h1 : Reachable s1 := reachable_step h0 hret
  have h2 : Reachable s2 := reachable_run h1 hrun
  have hi1 := inv_reachable h1
  have hi2 := inv_reachable h2
  have hvc : v ∈ s0.lr.committed := (C04_no_lost_update h0).2.2.subset (hi0.c.relU w v hv)
  -- an invariant of the LR state along the run from s1
  let P : LR.St → Prop := fun a => s0.lr.committed <+: a.committed ∧ ((a.pc r).inRead = true → s0.lr.committed <+: a.snap r)
  have hP : ∀ a b q e, P a → LR.step a q e = some b → P b := by
    intro a b q e ⟨hc, hsn⟩ hst
    refine ⟨hc.trans (LR.step_committed_le hst), ?_⟩
    intro hin
    rcases LR.step_snap hst r with ⟨e1, e2⟩ | ⟨_, _, e3⟩
    · rw [e1]; exact hsn (e2 hin)
    · rw [e3]; exact hc
  have hP1 : P s1.lr := by
    refine ⟨step_committed_le hret, ?_⟩
    have : lk (s1.lr.pc r) = .idle := by rw [hi1.l.link r, hidle]; rfl
    rw [LR.lk_idle this]; intro hc; cases hc
  obtain ⟨_, hsn⟩ := run_lr_inv hP hrun hP1
  obtain ⟨hu, c, hc⟩ := C04_copy_reads_held_side hcopy
  have hheld : (s2.lr.pc r).held = some x := by rw [hc]; rfl
  have hpre : s0.lr.committed <+: s2.lr.val x :=
    (hsn (LR.held_inRead hheld)).trans (LR.C03_realtime_inv hi2.l.reach hheld)
  exact ⟨hu, hpre, hpre.subset hvc, LR.held_val_le hi2.l.full.inv hi2.l.full.vinv hheld⟩

/-- At the return of a release the released version is committed. -/
theorem C04_release_returns {s s' : St} (h : Reachable s) {t : Tid} (hs : step s t (.ret .release) = some s') :
    ∃ v, s.pc t = .relU v ∧ v ∈ s.released ∧ v ∈ s.lr.committed ∧ s.wm ≠ some t ∧ s'.pc t = .idle := by
  have hi := inv_reachable h
  cases hp : s.pc t <;> simp only [step, hp] at hs <;> cow_unfold hs
  rename_i v
  subst hs
  have hr := hi.c.relU t v hp
  refine ⟨v, rfl, hr, (C04_no_lost_update h).2.2.subset hr, ?_, by simp⟩
  intro hw
  have := (C04_writers_serial h).mpr hw
  rw [hp] at this; cases this

/-! ## cancel() discards the copy, leaves the committed value untouched and frees the writer lock -/

theorem C04_cancel_starts {s s' : St} {t : Tid} (hs : step s t (.call .cancel) = some s') :
    ∃ v, s.pc t = .wHold v ∧ s' = s.setPc t (.cn v false false) := by
  cases hp : s.pc t <;> simp only [step, hp] at hs <;> cow_unfold hs
  exact ⟨_, rfl, hs.symm⟩

/-- Inside `cancel()` exactly three things can happen, each once: the writer mutex is unlocked (`u`: false → true), the
private copy is destroyed (`d`: false → true), and — only after both — the call returns.  None of them touches `m_data`
(nothing is published: sides, `committed` and `released` are unchanged) or any payload value. -/
theorem C04_cancel {s s' : St} {t : Tid} {e : Ev} {v : Ver} {u d : Bool} (hp : s.pc t = .cn v u d)
    (hs : step s t e = some s') :
    s'.lr = s.lr ∧ s'.released = s.released ∧ s'.cont = s.cont ∧
      ((e = .ounlock ∧ u = false ∧ s.wm = some t ∧ s'.wm = none ∧ s'.dead = s.dead ∧ s'.pc t = .cn v true d) ∨
       (e = .pdt v ∧ d = false ∧ s'.wm = s.wm ∧ s'.dead = v :: s.dead ∧ s'.pc t = .cn v u true) ∨
       (e = .ret .cancel ∧ u = true ∧ d = true ∧ s'.wm = s.wm ∧ s'.dead = s.dead ∧ s'.pc t = .idle)) := by
  simp only [step, hp] at hs
  cases e with
  | ounlock =>
    cow_unfold hs
    obtain ⟨⟨rfl, hw⟩, rfl⟩ := hs
    exact ⟨rfl, rfl, rfl, Or.inl ⟨rfl, rfl, hw, rfl, rfl, by simp⟩⟩
  | pdt v' =>
    cow_unfold hs
    obtain ⟨⟨rfl, rfl⟩, rfl⟩ := hs
    exact ⟨rfl, rfl, rfl, Or.inr (Or.inl ⟨rfl, rfl, rfl, rfl, by simp⟩)⟩
  | ret c =>
    cases c <;> cow_unfold hs
    obtain ⟨⟨rfl, rfl⟩, rfl⟩ := hs
    exact ⟨rfl, rfl, rfl, Or.inr (Or.inr ⟨rfl, rfl, rfl, rfl, rfl, by simp⟩)⟩
  | _ => cow_unfold hs

/-- Once `cancel()` has unlocked, the thread does not own the writer mutex: another writer can lock. -/
theorem C04_cancel_frees {s : St} (h : Reachable s) {t : Tid} {v : Ver} {d : Bool} (hp : s.pc t = .cn v true d) :
    s.wm ≠ some t := by
  intro hw
  have := (C04_writers_serial h).mpr hw
  rw [hp] at this; cases this

/-- Until `cancel()` destroys it, the private copy is alive, unpublished and not committed: it is destroyed exactly
once (`C04_destroy_unreferenced`: never a second time) and never becomes visible. -/
theorem C04_cancel_private {s : St} (h : Reachable s) {t : Tid} {v : Ver} {u : Bool} (hp : s.pc t = .cn v u false) :
    v ∉ s.dead ∧ ¬ s.pub v ∧ v ∉ s.lr.committed ∧ (∀ w, (w, v) ∉ s.snaps) := by
  have hi := inv_reachable h
  obtain ⟨_, a2, a3⟩ := hi.h.ownOk t v (by rw [hp]; rfl)
  exact ⟨a2, a3, fun hc => a3 (hi.c.comPub v hc), fun w hw => a3 (hi.h.snapsOk w v hw).1⟩

/-! ## non-vacuity: a concrete accepted trace (observed on the real header) and the states the theorems talk about

Thread 1 takes a snapshot of version 0 and keeps it; thread 2 locks (copy 1 of version 0), writes, releases (both wait
loops pass, version 0 survives: the snapshot refers to it), locks again; thread 1 re-reads its snapshot and drops it —
the last reference: it destroys version 0; thread 2's second handle (copy 2 of version 1) is cancelled. -/
def exTrace : List (Tid × Ev) :=
  [(1, .call (.lockShared 0)), (1, .lr (.ldCL .L)), (1, .lr (.inc .L 0)), (1, .lr (.ldRL .L)), (1, .ldPtr .L 0),
   (1, .ldCtl .L), (1, .lr (.dec .L 1)), (1, .retGot (.lockShared 0) 0),
   (2, .call .lock), (2, .olock), (2, .lr (.ldCL .L)), (1, .prd 0 0), (2, .lr (.inc .L 0)), (2, .lr (.ldRL .L)),
   (2, .ldPtr .L 0), (2, .pcp 1 0 0), (2, .lr (.dec .L 1)), (2, .retGot .lock 1), (2, .pwr 1 1),
   (2, .call .release), (2, .lr .lock), (2, .lr (.ldRL .L)), (2, .stPtr .R 1), (2, .ldCtl .R), (2, .ldCtl .R),
   (2, .stCtl .R), (2, .lr (.stRL .R)), (2, .lr (.ldCL .L)), (2, .lr (.ldCnt .R 0)), (2, .lr (.stCL .R)),
   (2, .lr (.ldCnt .L 0)), (2, .stPtr .L 1), (2, .ldCtl .L), (2, .ldCtl .L), (2, .stCtl .L), (2, .lr .unlock),
   (2, .ounlock), (2, .ret .release),
   (2, .call .lock), (2, .olock), (2, .lr (.ldCL .R)), (2, .lr (.inc .R 0)), (1, .prd 0 0), (1, .call (.drop 0)),
   (1, .pdt 0), (1, .ret (.drop 0)), (2, .lr (.ldRL .R)), (2, .ldPtr .R 1), (2, .pcp 2 1 1), (2, .lr (.dec .R 1)),
   (2, .retGot .lock 2), (2, .pwr 2 2), (2, .call .cancel), (2, .ounlock), (2, .pdt 2), (2, .ret .cancel),
   (0, .fin 1 1 1)]

/-- the whole trace is accepted -/
example : (run (init false) exTrace).isSome = true := by decide

/-- after the release has returned (38 events): version 1 is committed and released, both sides point to it, and thread
1 still owns its snapshot of version 0 — alive, value unchanged (hypotheses of `C04_snapshot_stable`, `_alive`,
`_immutable`, `C04_no_lost_update`, `C04_chain`) -/
example : ∃ s, run (init false) (exTrace.take 38) = some s ∧ (1, 0) ∈ s.snaps ∧ s.lr.committed = [1] ∧ s.released = [1] ∧
    s.sv .L = 1 ∧ s.sv .R = 1 ∧ s.cont 0 = 0 ∧ s.cont 1 = 1 ∧ s.dead = [] ∧ s.parent 1 = 0 ∧ s.wm = none :=
  ⟨_, rfl, by decide, rfl, rfl, rfl, rfl, rfl, rfl, rfl, rfl, rfl⟩

/-- the write through the handle (event 18) goes to the private copy 1 (hypothesis of `C04_write_private`) -/
example : ∃ s s', run (init false) (exTrace.take 18) = some s ∧ step s 2 (.pwr 1 1) = some s' ∧ s.pc 2 = .wHold 1 :=
  ⟨_, _, rfl, rfl, rfl⟩

/-- the copy (event 15) is made from version 0, the latest committed one (hypothesis of `C04_starts_from_latest`) -/
example : ∃ s s', run (init false) (exTrace.take 15) = some s ∧ step s 2 (.pcp 1 0 0) = some s' ∧ (s'.pc 2).carry = some 1 :=
  ⟨_, _, rfl, rfl, rfl⟩

/-- the commit (event 26; second alternative of `C04_commit_step`) -/
example : ∃ s s', run (init false) (exTrace.take 26) = some s ∧ step s 2 (.lr (.stRL .R)) = some s' ∧
    s.lr.committed = [] ∧ s'.lr.committed = [1] := ⟨_, _, rfl, rfl, rfl, rfl⟩

/-- the snapshot drop that removes the last reference must destroy (events 43, 44; `C04_drop_decision`,
`C04_last_drop_destroys`, `C04_destroy_unreferenced`) -/
example : ∃ s s', run (init false) (exTrace.take 44) = some s ∧ s.pc 1 = .dr 0 .must ∧ step s 1 (.pdt 0) = some s' ∧
    s'.dead = [0] := ⟨_, _, rfl, rfl, rfl, rfl⟩

/-- `C04_publish`: the release of version 1 returns (event 37), thread 2 is idle, and its later copy (event 47, inside
its next `lock()`) obtains version 1 -/
example : ∃ s0 s1 s2 s3, run (init false) (exTrace.take 37) = some s0 ∧ s0.pc 2 = .relU 1 ∧
    step s0 2 (.ret .release) = some s1 ∧ s1.pc 2 = .idle ∧ run s1 ((exTrace.drop 38).take 9) = some s2 ∧
    step s2 2 (.ldPtr .R 1) = some s3 := ⟨_, _, _, _, rfl, rfl, rfl, rfl, rfl, rfl⟩

/-- cancel (events 52–55): inside `cancel()` with the mutex released and the copy not yet destroyed; at the end the copy
is destroyed, nothing was published, the writer mutex is free (`C04_cancel`, `C04_cancel_frees`, `C04_cancel_private`,
`C04_final`) -/
example : ∃ s, run (init false) (exTrace.take 54) = some s ∧ s.pc 2 = .cn 2 true false ∧ s.wm = none ∧ s.dead = [0] :=
  ⟨_, rfl, rfl, rfl, rfl⟩

example : ∃ s, run (init false) exTrace = some s ∧ s.dead = [2, 0] ∧ s.lr.committed = [1] ∧ s.released = [1] ∧ s.wm = none ∧
    s.cont 1 = 1 := ⟨_, rfl, rfl, rfl, rfl, rfl, rfl⟩

end ConcVerif.Cow
