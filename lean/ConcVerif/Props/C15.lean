import ConcVerif.Proof.LockFamReg
/-! # C15 — atomic_guarded and whole-object load/store behave as one atomic register

Model: `Model/LockFam.lean` (locking enabled).  Every whole-object operation (`load`, `store`,
`operator=`, `operator T`, `modify`, `read`, `exchange`, `compare_exchange`) is one bracket of the
wrapper's mutex; at the closing release the model checks that the accesses observed inside the
bracket amount to the register operation the call claims (`wResult`) and appends the operation with
its result to the ghost history `hist`; writes made through an exclusive handle are recorded as
stores.  `Reg.apply` is the sequential specification of a single register and `Reg.run` replays a
history through it, failing if a recorded result differs.  (deferred_guarded: `Props/C15_deferred.lean`.) -/
namespace ConcVerif.LockFam

/-- Linearizability: for every concurrent execution (any threads, any interleaving) the operations,
in the order of their linearisation points, form a legal sequential register history with exactly
the results the callers obtained, ending in the committed value. -/
theorem C15_linearizable {cap : Bool} {s : St} (h : Reachable true cap s) :
    Reg.run 0 s.hist = some s.committed :=
  (linv_reachable h).rep

/-- The wrapped object itself holds the committed value whenever no writer is between its write and
its release (in particular whenever the mutex is free). -/
theorem C15_value_committed {cap : Bool} {s : St} (h : Reachable true cap s)
    (hq : ∀ t, (s.loc t).pc.writing = false) : s.val = s.committed :=
  (linv_reachable h).quiet hq

/-- A load (any read inside a whole-object bracket) returns the committed value — never a value that
is being written: a partially written value is never observed. -/
theorem C15_load_committed {cap : Bool} {s s' : St} {t : Tid} {v : Int} {w : WOp} {m : Mode} {a b : Option Int}
    {c : Bool} (h : Reachable true cap s) (hp : (s.loc t).pc = .whole w m a b c)
    (hs : step s t (.rd v) = some s') : v = s.committed := by
  have he := reachable_enabled h
  have hb := (linv_reachable h).bracket t w m a b c hp
  simp [step, hp, he] at hs
  rw [hs.1.2]; exact hb.2.2 hs.1.1

/-- The result a caller receives is the one recorded at the linearisation point. -/
theorem C15_result_recorded {s s' : St} {t : Tid} {r r' : Res} (he : s.enabled = true)
    (hp : (s.loc t).pc = .wDone r) (hs : step s t (.retW r') = some s') : r' = r := by
  simp [step, hp, he] at hs; exact hs.1

/-- The linearisation point lies inside the call: the entry is appended by the operation's own
closing release, i.e. after its `call` and before its `ret`; and the history is append-only, so
an operation that returned before another was called precedes it in the history (real-time order),
and each thread's operations appear in program order. -/
theorem C15_entry_inside_call {s s' : St} {t : Tid} {sd : Side} {w : WOp} {m : Mode} {a b : Option Int}
    (he : s.enabled = true) (hp : (s.loc t).pc = .whole w m a b false) (hs : step s t (.rel sd) = some s') :
    ∃ r, s'.hist = s.hist ++ [{ t := t, op := w, res := r }] ∧ (s'.loc t).pc = .wDone r := by
  simp [step, hp, he] at hs
  obtain ⟨_, hs⟩ := hs
  split at hs
  · rename_i r hres
    simp only [Option.map_eq_some_iff] at hs
    obtain ⟨s1, hr, hs⟩ := hs; subst hs
    exact ⟨r, by simp [St.setPc, (release_spec hr).2.2.2.2.2.2.2.2.2], by simp [St.setPc, St.setLoc]⟩
  · contradiction

theorem C15_history_append_only {s s' : St} {t : Tid} {e : Ev} (hs : step s t e = some s') :
    ∃ l, s'.hist = s.hist ++ l :=
  hist_append_only hs

/-- `exchange` returns the value it replaced. -/
theorem C15_exchange (v x : Int) : Reg.apply v (.xc x) = (x, .val v) := rfl

/-- `compare_exchange` succeeds exactly when the current value equals the expected one (installing
the desired value) and otherwise leaves the value alone and reports the current value. -/
theorem C15_cas (v e d : Int) :
    (v = e → Reg.apply v (.ce e d) = (d, .cas true e)) ∧ (v ≠ e → Reg.apply v (.ce e d) = (v, .cas false v)) := by
  constructor <;> intro h <;> simp [Reg.apply, h]

/-- what the real bracket did is what the specification says: soundness of the per-bracket check -/
theorem C15_bracket_is_register_op {w : WOp} {seen wrote : Option Int} {r : Res} {v0 v1 : Int}
    (h : wResult w seen wrote = some r) (hs : ∀ c, seen = some c → c = v0)
    (hw : ∀ v, wrote = some v → v1 = v) (hn : wrote = none → v1 = v0) : Reg.apply v0 w = (v1, r) :=
  wResult_sound h hs hw hn

/-! Non-vacuity: two threads — an `exchange(3)` that returns 0 and a failing
`compare_exchange(expected 0, desired 9)` that reports 3 — give the history `[xc 3 ↦ 0, ce 0 9 ↦ (false, 3)]`. -/
example : ∃ s, Reachable true false s ∧ s.hist.length = 2 ∧ s.committed = 3 ∧
    Reg.run 0 s.hist = some 3 ∧ (s.loc 2).pc = .wDone (.cas false 3) :=
  ⟨_, ⟨[(1, .callW (.xc 3)), (2, .callW (.ce 0 9)), (1, .lk .X .block true), (1, .rd 0), (1, .wr 3), (1, .rel .X),
        (2, .lk .X .block true), (2, .rd 3), (2, .rd 3), (2, .rel .X), (1, .retW (.val 0))], rfl⟩,
   by decide, by decide, by decide, by decide⟩

end ConcVerif.LockFam
