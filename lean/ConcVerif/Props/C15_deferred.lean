import ConcVerif.Proof.DeferredR
import ConcVerif.Props.C02_deferred
/-! # C15 (deferred_guarded part) — `load()` reads one atomic register

`deferred_guarded`'s only whole-object operation is `load()` (copy under the shared lock); reads
through a shared handle are covered by the same statements (`holdsS`).  The writes of the register
are the applications of the submitted tasks.  `runL` (`Proof/DeferredR.lean`) is the model's own run
extended by the ghost log `l` of completed applications `(task, value it left)`; it accepts exactly
the traces `run` accepts (`runL_fst`, `runL_of_run`), so all quantifiers are over every accepted
trace (any threads, programs, interleavings, throws).  The lock-family half is `Props/C15.lean`. -/
namespace ConcVerif.Deferred

/-- A load never returns a partially written value: the value read under the shared lock is the
model's `val`, nobody holds `m` exclusively and NO task function is running at that moment (so no
modification is in progress), and `val` is the value left by the last COMPLETED application — the log
then lists exactly the applied tasks. -/
theorem C15_deferred_load_atomic {spur : Bool} {es : List (Tid × Ev)} {s s' : St} {l : VLog} {t : Tid} {v : Int}
    (h : runL spur es = some (s, l)) (hS : (s.pc t).holdsS = true) (hs : step s t (.prd v) = some s') :
    v = s.val ∧ (∀ u, (s.pc u).running = none) ∧ s.mx = none ∧ v = lastVal l ∧ l.map Prod.fst = s.applied := by
  obtain ⟨hR, hr⟩ := invR_runL h
  have hv := (C02_deferred_read_under_lock hr hs).1
  have hq : ∀ u, (s.pc u).running = none := fun u => (C02_deferred_rw_excl hr hS u).1
  have ha := hR.a2 hq
  exact ⟨hv, hq, (C02_deferred_rw_excl hr hS t).2.2, by rw [hv, ha.2], ha.1.symm⟩

/-- the pcs at which `load()` reads are strictly inside the call: after `callLoad`, before `ret`/`exc` -/
theorem C15_deferred_load_inside_call {s s' : St} {t : Tid} {e : Ev} (hs : step s t e = some s') :
    (e = .callLoad → s.pc t = .idle false ∧ s'.pc t = .sFlag .load) ∧
    (∀ thr, s.pc t = .ldRet thr → (e = .ret ∨ e = .exc) ∧ s'.pc t = .idle false) := by
  constructor
  · intro he; subst he
    cases hp : s.pc t with
    | idle hh => cases hh <;> simp [step, hp] at hs; subst hs; simp [St.setPc]
    | _ => simp [step, hp] at hs
  · intro thr hp
    cases e <;> simp [step, hp] at hs
    · obtain ⟨_, hs⟩ := hs; subst hs; exact ⟨Or.inl rfl, by simp [St.setPc]⟩
    · obtain ⟨_, hs⟩ := hs; subst hs; exact ⟨Or.inr rfl, by simp [St.setPc]⟩

/-- Linearizability of loads against the applied modifications.  Take any accepted trace, cut at an
earlier point `es0` (e.g. the call of the load), at the read `(t, prd v)` made under the shared lock,
and at a later point (e.g. its return).  The value returned is the value after the prefix `l1` of the
final log — the completed applications at the read — and this prefix contains every application
completed (and every task applied) before the earlier point and only applications made before the
later one: the linearisation point (the read) lies between call and return, and the value is one that
the register really had (the one left by the last task of `l1`, or the initial 0). -/
theorem C15_deferred_load_linearizable {spur : Bool} {es0 es1 es2 : List (Tid × Ev)} {s0 s1 s2 : St}
    {l0 l1 l2 : VLog} {t : Tid} {v : Int}
    (h0 : runL spur es0 = some (s0, l0)) (h1 : runL spur (es0 ++ es1) = some (s1, l1))
    (hS : (s1.pc t).holdsS = true)
    (h2 : runL spur (es0 ++ es1 ++ (t, .prd v) :: es2) = some (s2, l2)) :
    v = lastVal l1 ∧ l1.map Prod.fst = s1.applied ∧ l0 <+: l1 ∧ l1 <+: l2 ∧
      s0.applied <+: s1.applied ∧ s1.applied <+: s2.applied := by
  unfold runL at h0 h1 h2
  have h01 : runFrom stepL (s0, l0) es1 = some (s1, l1) := by
    rw [runFrom_append, h0] at h1; simpa using h1
  have h12 : runFrom stepL (s1, l1) ((t, .prd v) :: es2) = some (s2, l2) := by
    rw [runFrom_append, h1] at h2; simpa using h2
  have hm01 := runFromL_mono h01
  have hm12 := runFromL_mono h12
  rw [runFrom_cons] at h12
  cases hs : step s1 t (.prd v) with
  | none => simp [stepL, hs] at h12
  | some s1' =>
    have hat := C15_deferred_load_atomic (spur := spur) (es := es0 ++ es1) h1 hS hs
    exact ⟨hat.2.2.2.1, hat.2.2.2.2, hm01.1, hm12.1, hm01.2, hm12.2⟩

/-- Successive reads (by one thread or by several) see non-decreasing prefixes: the log at a later
read extends the log at an earlier one, so a later load never returns an older state of the register. -/
theorem C15_deferred_load_monotone {spur : Bool} {es1 es2 : List (Tid × Ev)} {s1 s2 : St} {l1 l2 : VLog}
    (h1 : runL spur es1 = some (s1, l1)) (h2 : runL spur (es1 ++ es2) = some (s2, l2)) :
    l1 <+: l2 ∧ s1.applied <+: s2.applied := by
  unfold runL at h1 h2
  rw [runFrom_append, h1] at h2
  exact runFromL_mono (by simpa using h2)

/-- the ghost extension is conservative: same accepted traces, same states -/
theorem C15_deferred_log_conservative {spur : Bool} {es : List (Tid × Ev)} :
    (∀ s l, runL spur es = some (s, l) → run spur es = some s) ∧
    (∀ s, run spur es = some s → ∃ l, runL spur es = some (s, l)) :=
  ⟨fun _ _ h => runL_fst h, fun _ h => runL_of_run h⟩

/-! Non-vacuity: task 1 applied directly (0 → 1); thread 2 calls `load()`; meanwhile task 2 is applied
(1 → 5) before the shared acquisition; the load reads 5 = the value left by task 2, with the log
`[(1,1),(2,5)]`; task 3 (throws after writing 16) comes later: final log `[(1,1),(2,5),(3,16)]`. -/
example : ∃ s l, runL false [(1, .callMod 1 false), (1, .mtl true), (1, .fld false), (1, .ucb 1), (1, .prd 0),
      (1, .pwr 1), (1, .uce 1 1), (1, .mul), (1, .ret),
      (2, .callLoad), (2, .fld false),
      (1, .callMod 2 true), (1, .mtl true), (1, .fld false), (1, .ucb 2), (1, .prd 1), (1, .pwr 5), (1, .uce 2 5),
      (1, .mul), (1, .ret),
      (2, .slk), (2, .prd 5), (2, .sul), (2, .ret),
      (1, .callMod 3 false), (1, .mtl true), (1, .fld false), (1, .ucb 3), (1, .prd 5), (1, .pwr 16), (1, .uth 3),
      (1, .mul), (1, .exc)] = some (s, l) ∧ l = [(1, 1), (2, 5), (3, 16)] ∧ s.applied = [1, 2, 3] ∧ s.val = 16 :=
  ⟨_, _, rfl, rfl, rfl, rfl⟩

example : ∃ s l, runL false [(1, .callMod 1 false), (1, .mtl true), (1, .fld false), (1, .ucb 1), (1, .prd 0),
      (1, .pwr 1), (1, .uce 1 1), (1, .mul), (1, .ret),
      (2, .callLoad), (2, .fld false), (2, .slk)] = some (s, l) ∧ (s.pc 2).holdsS = true ∧
      (step s 2 (.prd 1)).isSome = true ∧ lastVal l = 1 ∧ step s 2 (.prd 0) = none :=
  ⟨_, _, rfl, rfl, rfl, rfl, rfl⟩

end ConcVerif.Deferred
