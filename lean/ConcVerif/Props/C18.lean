import ConcVerif.Proof.DObjConc
import ConcVerif.Proof.DObjLive
/-! # C18 — every DelayedObjects future is fulfilled exactly once and never hangs

Model: `Model/DObj.lean`.  Sequential specification `Seq.apply` (one pure function per public method,
quirks included) + concurrent layer `step` (every call is one critical section of `promiseLock`; the
specification is applied at the `mlk`, the `ret` must carry its result, the critical section must perform
exactly the `set_value` calls it prescribes).  `s.seq.promise p` is the state of promise `p`
(`unset` / `val v` / `broken`), `s.sets` the ghost log of every `set_value` call, `s.hist` the ghost
history in linearisation order.  "Requested once" is a hypothesis where the property has it: in the code,
`getFuture(k)` for a key that is still pending abandons the earlier promise (`broken_promise`). -/
namespace ConcVerif.DObj

/-! ## exactly once -/

/-- **At most once.**  In every reachable state no promise has been the target of two `set_value` calls,
and a promise holds value `v` exactly if the one call `set_value(v)` on it has been made. -/
theorem C18_exactly_once_at_most {s : St} (h : Reachable s) :
    (s.sets.map (·.1)).Nodup ∧ ∀ p v, s.seq.promise p = .val v ↔ (p, v) ∈ s.sets :=
  ⟨(inv_reachable h).setsNodup, (inv_reachable h).setsIff⟩

/-- **No `promise_already_satisfied`.**  Whenever a thread inside any method finds the lock free, its
critical section is defined by the specification: the methods never call `set_value` on a promise that
already holds a value (that is the only case the specification leaves undefined), whatever the
interleaving of setters, fulfillers and requesters. -/
theorem C18_exactly_once_no_throw {s : St} {t : Tid} {o : Op} (h : Reachable s) (hpc : s.pc t = .called o)
    (hl : s.lock = none) : ∃ s', step s t .mlk = some s' := by
  have hi := inv_reachable h
  have hd : s.seq.dead = false := by
    cases hh : s.seq.dead with
    | false => rfl
    | true => exact absurd hpc ((hi.deadClosed hh).2 t o)
  obtain ⟨⟨σ, r, l⟩, hx⟩ := apply_defined hi.wf hd o (fun k p ho => by subst ho; exact (hi.getFresh t k p hpc).2)
  exact Option.isSome_iff_exists.1 (by simp [step, hpc, hl, hx])

/-- the specification is defined on every well-formed live container (sequential form of the above) -/
theorem C18_exactly_once_spec_defined {σ : Seq} (w : WF σ) (hd : σ.dead = false) (o : Op)
    (hf : ∀ k p, o = .get k p → p ∉ σ.handed) : ∃ x, σ.apply o = some x :=
  apply_defined w hd o hf

/-- the state of a reachable container is well-formed -/
theorem C18_wf {s : St} (h : Reachable s) : WF s.seq := (inv_reachable h).wf

/-- **Value rule** (C18_value).  For every reachable state and every future handed out by a `getFuture(k)`
whose key is not requested again afterwards: its promise holds the value of the first operation after
the request, in linearisation order, that is a `setDelayedValue(k, v)` (value `v`), a
`fulfillAllPromises(v)` (value `v`) or the destructor (value `X{}` = 0) — and is still unset if there
was none.  `firstHit k after = after.findSome? (·.op.hits k)`, see `C18_value_reading`. -/
theorem C18_value {s : St} {k : Key} {p : Id} {before after : List HEntry} (h : Reachable s)
    (hh : Handed s k p before after) (honce : ∀ e ∈ after, ∀ q, e.op ≠ .get k q) :
    s.seq.promise p = (match firstHit k after with | some v => .val v | none => .unset) := by
  obtain ⟨e, hs, he⟩ := hh.split
  have hi := inv_reachable h
  have hl := hi.lin
  rw [hs, run_append] at hl
  cases h1 : Seq.init.run before with
  | none => rw [h1] at hl; cases hl
  | some σ1 =>
    rw [h1] at hl
    obtain ⟨σ2, l, ha, hr⟩ := run_cons hl
    rw [he] at ha
    have w2 := wf_apply (run_wf wf_init h1) ha
    exact (value_rule after σ2 s.seq w2 (get_pending ha) honce hr).1

/-- how to read `firstHit`: the first entry for which `Op.hits k` is defined -/
theorem C18_value_reading (k : Key) (h : List HEntry) :
    (∀ v, firstHit k h = some v ↔
      ∃ l₁ e l₂, h = l₁ ++ e :: l₂ ∧ e.op.hits k = some v ∧ ∀ x ∈ l₁, x.op.hits k = none) ∧
    (firstHit k h = none ↔ ∀ x ∈ h, x.op.hits k = none) := by
  rw [firstHit_eq_findSome]
  exact ⟨fun v => List.findSome?_eq_some_iff, List.findSome?_eq_none_iff⟩

/-- `Op.hits`: a matching `setDelayedValue` gives its value, `fulfillAllPromises` its value, the destructor
the default; nothing else satisfies a pending promise -/
theorem C18_value_hits (k : Key) :
    (∀ v mv, (Op.set k v mv).hits k = some v) ∧ (∀ k' v mv, k' ≠ k → (Op.set k' v mv).hits k = none) ∧
    (∀ v, (Op.ful v).hits k = some v) ∧ Op.dtor.hits k = some 0 ∧
    (∀ k' q, (Op.get k' q).hits k = none) ∧ (∀ k', (Op.isRec k').hits k = none) ∧
    (∀ k', (Op.isComp k').hits k = none) ∧ (∀ k', (Op.fin k').hits k = none) := by
  refine ⟨?_, ?_, ?_, ?_, ?_, ?_, ?_, ?_⟩ <;> intros <;> simp_all [Op.hits]

/-- **Exactly once, at the latest by the destructor** (C18_exactly_once).  After the container's
destructor every future handed out for a key that was not requested again is ready with a value — the
one given by the value rule — and exactly one `set_value` call was made on its promise. -/
theorem C18_exactly_once_destroyed {s : St} {k : Key} {p : Id} {before after : List HEntry} (h : Reachable s)
    (hd : s.seq.dead = true) (hh : Handed s k p before after) (honce : ∀ e ∈ after, ∀ q, e.op ≠ .get k q) :
    ∃ v, firstHit k after = some v ∧ s.seq.promise p = .val v ∧ (s.sets.map (·.1)).count p = 1 := by
  obtain ⟨e, hs, he⟩ := hh.split
  have hi := inv_reachable h
  have hl := hi.lin
  rw [hs, run_append] at hl
  cases h1 : Seq.init.run before with
  | none => rw [h1] at hl; cases hl
  | some σ1 =>
    rw [h1] at hl
    obtain ⟨σ2, l, ha, hr⟩ := run_cons hl
    have hd2 : σ2.dead = false := by
      cases hh2 : σ2.dead with
      | false => rfl
      | true => have := (apply_dead ha).2.1 hh2; rw [he] at this; cases this
    have hsome := firstHit_dtor (k := k) (run_dead hr hd hd2)
    have hv := C18_value h hh honce
    cases hf : firstHit k after with
    | none => rw [hf] at hsome; cases hsome
    | some v =>
      rw [hf] at hv
      refine ⟨v, rfl, hv, ?_⟩
      have hm : p ∈ s.sets.map (·.1) := List.mem_map.2 ⟨(p, v), (hi.setsIff p v).1 hv, rfl⟩
      rw [hi.setsNodup.count]; simp [hm]

/-- **Never hangs** (safety form): once the destructor has run, every future ever handed out is ready —
with a value or, if its key was requested again while it was pending, with `broken_promise`.  (That a
blocked consumer is eventually scheduled after that is fair termination of the scheduler and `std::future`,
not mechanised.) -/
theorem C18_never_hangs_partial {s : St} (h : Reachable s) (hd : s.seq.dead = true) :
    ∀ p, p ∈ s.seq.handed → s.seq.promise p ≠ .unset := by
  intro p hp hu
  have w := (inv_reachable h).wf
  obtain ⟨k, hk⟩ := w.handedAcc p hp hu
  rw [(w.deadEmpty hd).1] at hk; cases hk

/-- the futures handed out are exactly the `getFuture` entries of the history -/
theorem C18_handed_iff {s : St} (h : Reachable s) (p : Id) :
    p ∈ s.seq.handed ↔ ∃ e ∈ s.hist, ∃ k, e.op = .get k p := by
  have := run_handed (inv_reachable h).lin p
  simpa [Seq.init] using this

/-- a satisfied promise keeps its value: a ready future never changes -/
theorem C18_value_stable {s s' : St} {t : Tid} {e : Ev} {p : Id} {v : Val}
    (hs : step s t e = some s') (hv : s.seq.promise p = .val v) : s'.seq.promise p = .val v := by
  cases step_tr hs with
  | mlk o σ r l hpc hl ha => exact apply_val_stable ha hv
  | _ => exact hv

/-- what a consumer reads from a future is the state of its promise -/
theorem C18_got_sound {s s' : St} {t : Tid} {p : Id} {x : PState} (hs : step s t (.got p x) = some s') :
    s.seq.promise p = x ∧ x ≠ .unset ∧ s' = s := by
  cases step_tr hs with
  | got p x hpc hx hp => exact ⟨hp, hx, rfl⟩

/-! ## no-op -/

/-- **No-op** (C18_noop).  `setDelayedValue` for a key that is unknown or completed (not pending) changes
nothing and sets no promise. -/
theorem C18_noop {σ : Seq} {k : Key} (v : Val) (mv : Bool) (hd : σ.dead = false)
    (hk : σ.phase k = .unknown ∨ σ.phase k = .completed) : σ.apply (.set k v mv) = some (σ, .unit, []) := by
  have : lookup k σ.pending = none := by
    unfold Seq.phase at hk
    split at hk <;> simp_all
  simp [Seq.apply, hd, Seq.app, this]

/-- the same under concurrency: the critical section of such a call leaves the container and the
`set_value` log untouched and has no `set_value` to perform -/
theorem C18_noop_concurrent {s s' : St} {t : Tid} {k : Key} {v : Val} {mv : Bool}
    (hpc : s.pc t = .called (.set k v mv)) (hk : s.seq.phase k = .unknown ∨ s.seq.phase k = .completed)
    (hs : step s t .mlk = some s') :
    s'.seq = s.seq ∧ s'.sets = s.sets ∧ s'.pc t = .locked (.set k v mv) .unit [] := by
  cases step_tr hs with
  | mlk o σ r l hpc' hl ha =>
    rw [hpc] at hpc'; injection hpc' with ho; subst ho
    have hd := (apply_dead ha).1
    rw [C18_noop v mv hd hk] at ha
    injection ha with ha; injection ha with h1 h2; injection h2 with h2 h3
    subst h1; subst h2; subst h3
    simp

/-! ## queries and life cycle -/

/-- **Life-cycle automaton** (C18_queries).  Every method moves every key along the automaton
`Phase.after`: `getFuture(k)`: unknown → pending, completed → both (quirk: completed entry kept),
pending / both stay (the old pending promise is abandoned); `setDelayedValue(k)` and `fulfillAllPromises`:
pending / both → completed; `finishedWithValue(k)`: completed → unknown (forgotten), both → pending;
queries and operations on other keys change nothing. -/
theorem C18_queries_lifecycle {σ σ' : Seq} {o : Op} {r : Res} {l : List (Id × Val)}
    (h : σ.apply o = some (σ', r, l)) (k : Key) : σ'.phase k = Phase.after o k (σ.phase k) :=
  phase_step h k

/-- the automaton for a key requested once: unknown → pending → completed → forgotten -/
theorem C18_queries_once (k : Key) (p : Id) (v : Val) (mv : Bool) :
    Phase.after (.get k p) k .unknown = .pending ∧ Phase.after (.set k v mv) k .pending = .completed ∧
    Phase.after (.ful v) k .pending = .completed ∧ Phase.after (.fin k) k .completed = .unknown ∧
    Phase.after (.fin k) k .pending = .pending ∧ Phase.after (.set k v mv) k .completed = .completed ∧
    Phase.after (.set k v mv) k .unknown = .unknown := by
  simp [Phase.after]

/-- `isRecognized(k)` is true exactly when `k` is pending or completed; it changes nothing -/
theorem C18_queries_isRecognized {σ σ' : Seq} {k : Key} {r : Res} {l : List (Id × Val)}
    (h : σ.apply (.isRec k) = some (σ', r, l)) :
    σ' = σ ∧ l = [] ∧ ∃ b, r = .bool b ∧ (b = true ↔ σ.phase k ≠ .unknown) :=
  isRec_result h

/-- `isCompleted(k)` is true exactly when `k` has a completed entry; it changes nothing -/
theorem C18_queries_isCompleted {σ σ' : Seq} {k : Key} {r : Res} {l : List (Id × Val)}
    (h : σ.apply (.isComp k) = some (σ', r, l)) :
    σ' = σ ∧ l = [] ∧ ∃ b, r = .bool b ∧ (b = true ↔ (σ.phase k = .completed ∨ σ.phase k = .both)) :=
  isComp_result h

/-- `finishedWithValue(k)` touches no promise and sets none -/
theorem C18_queries_finished {σ σ' : Seq} {k : Key} {r : Res} {l : List (Id × Val)}
    (h : σ.apply (.fin k) = some (σ', r, l)) :
    σ'.promise = σ.promise ∧ σ'.pending = σ.pending ∧ l = [] ∧ r = .unit := by
  obtain ⟨_, h⟩ := apply_eq h
  rw [app_fin] at h; injection h with h; injection h with h h2; injection h2 with h2 h3
  subst h; exact ⟨rfl, rfl, h3.symm, h2.symm⟩

/-- what the phases mean for the futures, in every reachable state: the promise of a pending key is not
yet satisfied, the promise of a completed key holds a value (its future is ready) -/
theorem C18_queries_phase_promise {s : St} (h : Reachable s) (k : Key) :
    (∀ p, lookup k s.seq.pending = some p → s.seq.promise p = .unset) ∧
    (∀ p, lookup k s.seq.used = some p → ∃ v, s.seq.promise p = .val v) :=
  phase_promise (inv_reachable h).wf k

/-! ## linearisability, mutual exclusion, progress -/

/-- **Linearisability.**  For every concurrent execution (any threads, any interleaving) the operations,
in the order of their linearisation points, form a legal sequential history of the specification with
exactly the recorded results, ending in the current state of the container. -/
theorem C18_linearizable {s : St} (h : Reachable s) : Seq.init.run s.hist = some s.seq :=
  (inv_reachable h).lin

/-- the result a caller receives is the one recorded at its linearisation point -/
theorem C18_result_recorded {s s' : St} {t : Tid} {o o' : Op} {r r' : Res} (h : Reachable s)
    (hpc : s.pc t = .unlocked o r) (hs : step s t (.ret o' r') = some s') :
    o' = o ∧ r' = r ∧ HEntry.mk t o r ∈ s.hist := by
  cases step_tr hs with
  | ret o2 r2 hpc' =>
    rw [hpc] at hpc'; injection hpc' with h1 h2
    exact ⟨h1.symm, h2.symm, (inv_reachable h).recorded t o r (Or.inl hpc)⟩

/-- the linearisation point lies inside the call: the entry is appended by the operation's own `mlk`,
after its `call` and before its `ret` -/
theorem C18_entry_inside_call {s s' : St} {t : Tid} {o : Op} (hpc : s.pc t = .called o)
    (hs : step s t .mlk = some s') :
    ∃ r td, s'.hist = s.hist ++ [HEntry.mk t o r] ∧ s'.pc t = .locked o r td := by
  cases step_tr hs with
  | mlk o2 σ r l hpc' hl ha =>
    rw [hpc] at hpc'; injection hpc' with ho; subst ho
    exact ⟨r, l.map Prod.snd, rfl, by simp⟩

/-- the history is append-only: real-time order and program order are respected -/
theorem C18_history_append_only {s s' : St} {t : Tid} {e : Ev} (hs : step s t e = some s') :
    ∃ l, s'.hist = s.hist ++ l := by
  cases step_tr hs with
  | mlk o σ r l hpc hl ha => exact ⟨_, rfl⟩
  | _ => exact ⟨[], by simp⟩

/-- **Mutual exclusion**: at most one thread is inside a critical section of `promiseLock` -/
theorem C18_mutual_exclusion {s : St} {t u : Tid} {o o' : Op} {r r' : Res} {td td' : List Val} (h : Reachable s)
    (ht : s.pc t = .locked o r td) (hu : s.pc u = .locked o' r' td') : t = u := by
  have hi := inv_reachable h
  have h1 := (hi.lockPc t).2 ⟨o, r, td, ht⟩
  have h2 := (hi.lockPc u).2 ⟨o', r', td', hu⟩
  rw [h1] at h2; injection h2

/-- the maps are touched only under the lock (or by the destructor's member destruction) -/
theorem C18_access_locked {s s' : St} {t : Tid} (h : Reachable s) (hs : step s t .acc = some s') :
    s.lock = some t ∨ ∃ r, s.pc t = .unlocked .dtor r := by
  cases step_tr hs with
  | accL o r todo hpc => exact Or.inl (((inv_reachable h).lockPc t).2 ⟨o, r, todo, hpc⟩)
  | accD r hpc => exact Or.inr ⟨r, hpc⟩

/-- a thread outside the library holds nothing -/
theorem C18_idle_holds_nothing {s : St} {t : Tid} (h : Reachable s) (hpc : s.pc t = .idle) : s.lock ≠ some t := by
  intro hl
  obtain ⟨o, r, td, hp⟩ := ((inv_reachable h).lockPc t).1 hl
  rw [hpc] at hp; cases hp

/-- the lock holder is never blocked: it can always take its next step -/
theorem C18_holder_enabled {s : St} {t : Tid} (h : Reachable s) (hl : s.lock = some t) :
    ∃ e s', step s t e = some s' := by
  obtain ⟨o, r, td, hp⟩ := ((inv_reachable h).lockPc t).1 hl
  cases td with
  | nil => exact ⟨.mul, Option.isSome_iff_exists.1 (by simp [step, hp, hl])⟩
  | cons v vs => exact ⟨.pset v, Option.isSome_iff_exists.1 (by simp [step, hp])⟩

/-- **Deadlock-freedom**: a thread inside a call is either enabled, or waits for the lock whose holder is
enabled -/
theorem C18_deadlock_free {s : St} {t : Tid} (h : Reachable s) (hpc : s.pc t ≠ .idle) :
    (∃ e s', step s t e = some s') ∨ (∃ u, u ≠ t ∧ s.lock = some u ∧ ∃ e s', step s u e = some s') := by
  cases hp : s.pc t with
  | idle => exact absurd hp hpc
  | called o =>
    cases hl : s.lock with
    | none =>
      obtain ⟨s', hs⟩ := C18_exactly_once_no_throw h hp hl
      exact Or.inl ⟨.mlk, s', hs⟩
    | some u =>
      have hne : u ≠ t := by
        intro hh; subst hh
        obtain ⟨_, _, _, hq⟩ := ((inv_reachable h).lockPc u).1 hl
        rw [hp] at hq; cases hq
      exact Or.inr ⟨u, hne, rfl, C18_holder_enabled h hl⟩
  | locked o r td => exact Or.inl (C18_holder_enabled h (((inv_reachable h).lockPc t).2 ⟨o, r, td, hp⟩))
  | unlocked o r => exact Or.inl ⟨.ret o r, Option.isSome_iff_exists.1 (by simp [step, hp])⟩

/-! ## non-vacuity -/

/-- `exTrace` (Proof/DObjConc.lean): two consumers, a setter and a fulfiller, then the destructor -/
example : ∃ s, Reachable s ∧ s.seq.dead = true ∧ s.seq.promise 0 = .val 5 ∧ s.seq.promise 1 = .val 7 ∧
    s.sets = [(0, 5), (1, 7)] ∧ s.hist.length = 6 ∧ s.seq.handed = [0, 1] :=
  ⟨_, ⟨exTrace, rfl⟩, by decide, by decide, by decide, by decide, by decide, by decide⟩

/-- the hypotheses of `C18_value` / `C18_exactly_once_destroyed` are satisfiable: promise 0 was handed out by
the second history entry (thread 1's `getFuture(1)`), key 1 is not requested again, the first hit is the `set` -/
example : ∃ s, Reachable s ∧ s.seq.dead = true ∧
    ∃ before after, Handed s (.i 1) 0 before after ∧ (∀ e ∈ after, ∀ q, e.op ≠ .get (.i 1) q) ∧
      firstHit (.i 1) after = some 5 :=
  ⟨_, ⟨exTrace, rfl⟩, by decide, [⟨2, .get (.s 2) 1, .unit⟩],
    [⟨3, .set (.i 1) 5 false, .unit⟩, ⟨4, .ful 7, .unit⟩, ⟨3, .isComp (.i 1), .bool true⟩, ⟨0, .dtor, .unit⟩],
    ⟨⟨⟨1, .get (.i 1) 0, .unit⟩, by decide, rfl⟩⟩,
    by intro e he q; simp at he; rcases he with rfl | rfl | rfl | rfl <;> simp, by decide⟩

/-- the quirk is reachable: requesting a pending key again breaks the first promise; after the destructor
the first future is ready with `broken_promise`, the second with the default value -/
example : ∃ s, Reachable s ∧ s.seq.dead = true ∧ s.seq.promise 0 = .broken ∧ s.seq.promise 1 = .val 0 ∧
    s.seq.handed = [1, 0] :=
  ⟨_, ⟨[(1, .call (.get (.i 1) 0)), (1, .mlk), (1, .mul), (1, .ret (.get (.i 1) 0) .unit),
        (1, .call (.get (.i 1) 1)), (1, .mlk), (1, .mul), (1, .ret (.get (.i 1) 1) .unit),
        (1, .got 0 .broken), (0, .call .dtor), (0, .mlk), (0, .pset 0), (0, .mul), (0, .ret .dtor .unit)], rfl⟩,
   by decide, by decide, by decide, by decide⟩

/-- a thread waiting for the lock while another is inside its critical section with a `set_value` to do
(hypotheses of `C18_no_throw`, `C18_holder_enabled`, `C18_deadlock_free`, `C18_mutual_exclusion`) -/
example : ∃ s, Reachable s ∧ s.pc 2 = .called (.ful 7) ∧ s.pc 1 = .locked (.set (.i 1) 5 true) .unit [5] ∧
    s.lock = some 1 :=
  ⟨_, ⟨[(1, .call (.get (.i 1) 0)), (1, .mlk), (1, .mul), (1, .ret (.get (.i 1) 0) .unit),
        (1, .call (.set (.i 1) 5 true)), (2, .call (.ful 7)), (1, .mlk)], rfl⟩, by decide, by decide, by decide⟩

/-- no-op cases are reachable: set on an unknown key, and on a completed key -/
example : ∃ s, Reachable s ∧ s.seq.phase (.i 9) = .unknown ∧ s.seq.phase (.i 1) = .completed ∧
    s.pc 1 = .called (.set (.i 1) 6 false) ∧ s.lock = none :=
  ⟨_, ⟨[(1, .call (.get (.i 1) 0)), (1, .mlk), (1, .mul), (1, .ret (.get (.i 1) 0) .unit),
        (1, .call (.set (.i 1) 5 true)), (1, .mlk), (1, .pset 5), (1, .mul), (1, .ret (.set (.i 1) 5 true) .unit),
        (1, .call (.set (.i 1) 6 false))], rfl⟩, by decide, by decide, by decide, by decide⟩

/-! ## Liveness: every call returns — for every scheduler

Environment events (`isEnv`, Proof/DObjLive.lean): `call`, the tap observation `acc`, a consumer's observation
`got`; library steps: `mlk`, each `set_value` (`pset`), `mul`, `ret`.
* `C18_terminates` (no livelock): an execution that makes no environment event from some point on cannot be
  infinite, whatever the scheduler does (two-level rank: "has not taken `promiseLock` yet", then
  `todo.length + 2` — the `set_value` calls of a critical section are fixed when the lock is taken).
* `C18_progress` / `C18_stuck_all_returned` (no deadlock): a reachable state without enabled library step has
  every thread returned.  With `C18_never_hangs_partial`: a maximal execution with finitely many calls that
  includes the destructor ends with every thread returned and every future handed out ready.
Not covered: starvation of one caller by infinitely many calls of others under an unfair mutex; a consumer
blocked inside `future::get` is not modelled as a thread state (`got` observes a ready future). -/

theorem C18_terminates (x : Live.Exec step) (N : Nat) (ts : List Tid) (hnd : ts.Nodup)
    (hts : ∀ n, N ≤ n → x.who n ∈ ts) (hnc : ∀ n, N ≤ n → isEnv (x.ev n) = false) : False :=
  Live.no_infinite_run_lex rankedLex ts hnd x N trivial hts hnc

/-- deadlock-freedom: if some thread is inside a call, some thread has an enabled library step -/
theorem C18_progress {s : St} (h : Reachable s) {t : Tid} (ht : s.pc t ≠ .idle) : ∃ u, LibEnabled s u := by
  cases hl : s.lock with
  | some u =>
    obtain ⟨o, r, td, hp⟩ := ((inv_reachable h).lockPc u).1 hl
    cases td with
    | nil => exact ⟨u, .mul, rfl, by simp [step, hp, hl]⟩
    | cons v vs => exact ⟨u, .pset v, rfl, by simp [step, hp]⟩
  | none =>
    cases hp : s.pc t with
    | idle => exact absurd hp ht
    | called o =>
      obtain ⟨s', hs⟩ := C18_exactly_once_no_throw h hp hl
      exact ⟨t, .mlk, rfl, by simp [hs]⟩
    | locked o r td =>
      have := ((inv_reachable h).lockPc t).2 ⟨o, r, td, hp⟩
      rw [hl] at this; cases this
    | unlocked o r => exact ⟨t, .ret o r, rfl, by simp [step, hp]⟩

/-- a reachable state without enabled library step has every thread returned -/
theorem C18_stuck_all_returned {s : St} (h : Reachable s) (hstuck : ∀ u, ¬ LibEnabled s u) (t : Tid) :
    s.pc t = .idle := by
  apply Classical.byContradiction
  intro ht
  obtain ⟨u, hu⟩ := C18_progress h ht
  exact hstuck u hu

/-- … and if the destructor was one of the calls, every future ever handed out is ready then -/
theorem C18_stuck_after_dtor_all_ready {s : St} (h : Reachable s) (hstuck : ∀ u, ¬ LibEnabled s u)
    (hd : s.seq.dead = true) : (∀ t, s.pc t = .idle) ∧ ∀ p ∈ s.seq.handed, s.seq.promise p ≠ .unset :=
  ⟨C18_stuck_all_returned h hstuck, C18_never_hangs_partial h hd⟩

/-- non-vacuity: thread 1 inside its critical section with one `set_value` to do (rank 3), thread 2 waiting
for the lock (first level 1) and unable to take it -/
example : ∃ s, Reachable s ∧ μ s 1 = 3 ∧ α s 2 = 1 ∧ step s 2 .mlk = none ∧ LibEnabled s 1 :=
  ⟨_, ⟨[(1, .call (.get (.i 1) 0)), (1, .mlk), (1, .mul), (1, .ret (.get (.i 1) 0) .unit),
        (1, .call (.set (.i 1) 5 true)), (2, .call (.ful 7)), (1, .mlk)], rfl⟩, by decide, by decide, by decide,
   ⟨.pset 5, rfl, by decide⟩⟩

end ConcVerif.DObj
