import ConcVerif.Proof.HBTripWire
/-! # C07 for TripWire — publication through the trip line, at the level of the model

For EVERY trace accepted by the TripWire model `TripWire.step` (any number of lines, trigger and
detector objects, threads; the same `step` the observed traces of `TripWire.hpp` are checked against),
mapped to happens-before events (`TripWire.toHB`; the model accepts a tripping store / exchange only
with an order at least `release` and a load in `isTripped` only with an order at least `acquire`):

* `C07_tripwire`: the trigger's store synchronises with every later load of the line that reads from
  it (or from an exchange continuing its release sequence), hence
* `C07_tripwire_publication`: whatever the triggering thread did before the store happens-before
  whatever the detecting thread does after that load;
* `C07_tripwire_ghost`: the publication ghost of the model (`know`, `msg`) is sound for happens-before;
* `C07_tripwire_read` / `C07_tripwire_write`: every accepted client read of a value `v ≠ 0` happens-after
  a write of `v` to that datum, every accepted overwriting client write happens-after a write of the
  value it overwrites (with the harness's unique values per datum: after THE write / after the previous
  write — the write→read and write→write halves of data-race freedom for the client data).

Not a theorem of this model: read→write ordering of client data (the model does not track which
thread has READ a datum); for that half the observed traces are checked by `raceFree`. -/
namespace ConcVerif.TripWire

/-- **The release store synchronises with the acquire load that reads from it.**  `k`: a store /
exchange on line `l` (in an accepted trace: by a trigger's destructor, value `true`, order ≥ release);
`j`: a later load of `l` (order ≥ acquire) with no plain store of `l` strictly between them. -/
theorem C07_tripwire {n : Nat} {es : List (Tid × Ev)} {s : St} (h : run n es = some s) {k j : Nat} {t r : Tid} {ek : Ev}
    {l : LineId} {o : Ord} {v : Bool} (hk : es[k]? = some (t, ek)) (hw : ek.isWrite = true) (hline : ek.line? = some l)
    (hj : es[j]? = some (r, .ld l o v)) (hkj : k < j)
    (hno : ∀ m w o' v', k < m → m < j → es[m]? ≠ some (w, Ev.st l o' v')) : HB.HB (hbTrace es) k j :=
  .sw (tw_trip_sw h hk hw hline hj hkj hno)

/-- **Publication through the trip line.**  Anything thread `t` did at `i` before its tripping write
at `k` happens-before anything thread `r` does at `j'` after its load at `j` that read from that write. -/
theorem C07_tripwire_publication {n : Nat} {es : List (Tid × Ev)} {s : St} (h : run n es = some s) {i k j j' : Nat}
    {t r : Tid} {ei ek ej : Ev} {l : LineId} {o : Ord} {v : Bool} (hi : es[i]? = some (t, ei)) (hfi : ei ≠ .fork)
    (hk : es[k]? = some (t, ek)) (hw : ek.isWrite = true) (hline : ek.line? = some l)
    (hj : es[j]? = some (r, .ld l o v)) (hj' : es[j']? = some (r, ej)) (hfj : ej ≠ .fork) (hik : i < k) (hkj : k < j)
    (hjj : j < j') (hno : ∀ m w o' v', k < m → m < j → es[m]? ≠ some (w, Ev.st l o' v')) :
    HB.HB (hbTrace es) i j' := by
  have tid : ∀ {u : Tid} {e : Ev}, e ≠ .fork → ∃ he, toHB (u, e) = (u, he) := by
    intro u e he; cases e <;> first | exact absurd rfl he | exact ⟨_, rfl⟩
  obtain ⟨a, ha⟩ := tid (u := t) hfi
  obtain ⟨b, hb⟩ := tid (u := t) (e := ek) (by intro hc; subst hc; simp [Ev.isWrite] at hw)
  obtain ⟨c, hc⟩ := tid (u := r) hfj
  refine .trans (.po hik (by rw [hbTrace_get hi, ha]) (by rw [hbTrace_get hk, hb])) (.trans (.sw (tw_trip_sw h hk hw hline hj hkj hno)) ?_)
  exact .po hjj (hbTrace_get hj) (by rw [hbTrace_get hj', hc])

/-- **The publication ghost is sound.**  After every accepted trace: each entry `(d, v)` of `know t`
is a client write `pwr d v` at a position that happens-before-or-is an event of `t` (or its creation);
each entry of `msg l` is a client write ordered before-or-at the head of the current release sequence
of line `l` (a releasing write of `l` with no plain store of `l` after it). -/
theorem C07_tripwire_ghost {n : Nat} {es : List (Tid × Ev)} {s : St} (h : run n es = some s) :
    (∀ t d v, (d, v) ∈ s.know t → ∃ i u, es[i]? = some (u, Ev.pwr d v) ∧ HB.KnA (hbTrace es) t i) ∧
    (∀ l d v, (d, v) ∈ s.msg l → ∃ i u, es[i]? = some (u, Ev.pwr d v) ∧
      ∃ q, HeadAt es l q ∧ HB.HBeq (hbTrace es) i q) :=
  gs_run h

/-- **Client reads.**  Whenever the model accepts a client read of datum `d` returning `v ≠ 0` after an
accepted trace, a write of `v` to `d` in that trace happens-before the read. -/
theorem C07_tripwire_read {n : Nat} {es : List (Tid × Ev)} {s s' : St} {t : Tid} {d v : Nat} (h : run n es = some s)
    (hs : step s t (.prd d v) = some s') (hv : v ≠ 0) :
    ∃ i u, es[i]? = some (u, Ev.pwr d v) ∧ HB.HB (hbTrace (es ++ [(t, .prd d v)])) i es.length :=
  tw_read_hb h hs hv

/-- **Client writes.**  Whenever the model accepts a client write over a datum holding `≠ 0`, a write of
the overwritten value happens-before it. -/
theorem C07_tripwire_write {n : Nat} {es : List (Tid × Ev)} {s s' : St} {t : Tid} {d v : Nat} (h : run n es = some s)
    (hs : step s t (.pwr d v) = some s') (hd : s.data d ≠ 0) :
    ∃ i u, es[i]? = some (u, Ev.pwr d (s.data d)) ∧ HB.HB (hbTrace (es ++ [(t, .pwr d v)])) i es.length :=
  tw_write_hb h hs hd

/-- main thread 0 makes a trigger and a detector on the declared line; thread 1 writes datum 5 and
destroys the trigger (release store); thread 2 sees the line tripped and reads datum 5 -/
def hbWitness : List (Tid × Ev) :=
  [(0, .callMkT 1 .decl), (0, .retMkT 1 (some .decl)), (0, .callMkD 2 .decl), (0, .retMkD 2 (some .decl)),
   (1, .fork), (1, .pwr 5 9), (1, .callRm 1), (1, .st .decl .rel true), (1, .retRm 1),
   (2, .fork), (2, .callCk 2), (2, .ld .decl .acq true), (2, .retCk 2 true), (2, .prd 5 9)]

example : ∃ s, run 0 hbWitness = some s ∧ HB.HB (hbTrace hbWitness) 5 13 ∧ HB.raceFree (hbTrace hbWitness) = true :=
  ⟨_, rfl, C07_tripwire_publication (s := _) (n := 0) (l := .decl) (k := 7) (j := 11) rfl rfl (by intro h; cases h)
      rfl rfl rfl rfl rfl (by intro h; cases h) (by decide) (by decide) (by decide)
      (by intro m w o' v' h1 h2; have : m = 8 ∨ m = 9 ∨ m = 10 := by omega
          rcases this with h | h | h <;> subst h <;> simp [hbWitness]),
    by decide⟩

/-- the model rejects a relaxed tripping store and a relaxed load … -/
example : run 0 (hbWitness.take 7 ++ [(1, .st .decl .rlx true)]) = none := rfl
example : run 0 (hbWitness.take 11 ++ [(2, .ld .decl .rlx true)]) = none := rfl

/-- … and with them the same events would race on datum 5 -/
example : HB.raceFree [(1, .wr 5), (1, .st 0 .rlx), (2, .ld 0 .acq), (2, .rd 5)] = false := by decide

end ConcVerif.TripWire
