import ConcVerif.Props.C17
/-! # C20 (SearchableObjectHolder part) — a throwing predicate never leaves the holder locked or half-modified

In the model (`Model/SOH.lean`) the user predicate given to `removeObject(pred)` /
`findObject(pred)` / `findObject(pred, type)` may throw at its j-th invocation, for every j
(`Pred.thr`); the specification then yields the result `threw`, and the concurrent layer accepts
`uth` (the throw, inside the critical section, at exactly that invocation), then the release of
`mapLock` (the `lock_guard` destructor during unwinding), then `exc` (the exception reaches the caller).
All C17 theorems are about traces that contain such throws; the statements below single out what C20 asks. -/
namespace ConcVerif.SOH

/-- Specification level: a call that ends with an exception leaves both maps exactly as they were
(objects and tags: not half-modified) — for every state, operation and throwing invocation. -/
theorem C20_soh_spec_unchanged {m : Maps} {op : Op} (h : (apply m op).2 = .threw) :
    (apply m op).1 = m ∧ op.hasPred = true :=
  ⟨apply_threw_unchanged h, apply_threw_pred h⟩

/-- ... and in a linearised history an entry that threw does not move the replayed state -/
theorem C20_soh_replay_skips_throw (m : Maps) (t : Tid) (op : Op) (rest : List HEntry)
    (h : replay m (⟨t, op, .threw⟩ :: rest) ≠ none) : replay m (⟨t, op, .threw⟩ :: rest) = replay m rest := by
  simp only [replay] at h ⊢
  split
  · rename_i hr; rw [apply_threw_unchanged hr]
  · rename_i hr; simp [hr] at h

/-- The throw happens inside the critical section, at the invocation the specification names, by the
lock holder; the thread then is in the unwinding state, from which the release is enabled. -/
theorem C20_soh_throw_inside {s s' : St} {t : Tid} (h : Reachable s) (hs : step s t .uth = some s') :
    (∃ op, s.pc t = .cs op .threw [] ∧ s'.pc t = .thrown op) ∧ s.lock = some t ∧ s'.lock = some t ∧
    s'.maps = s.maps ∧ (step s' t .mul).isSome = true := by
  have htr := step_tr hs
  cases htr with
  | uth op hp =>
    have hl : s.lock = some t := ((inv_reachable h).lk t).mpr (by simp [hp, Pc.inCS])
    refine ⟨⟨op, hp, by simp⟩, hl, hl, rfl, ?_⟩
    simp [step, hl]

/-- The lock acquisition of a call that is going to throw does not change the maps; together with
`C17_maps_change_only_at_lin` (no other step of the thread changes them): from `call` to `exc` the
throwing call leaves the holder's contents untouched. -/
theorem C20_soh_not_half_modified {s s' : St} {t : Tid} {op : Op} {pend : List ObjId} (hp : s.pc t = .called op)
    (hs : step s t .mlk = some s') (hthrow : s'.pc t = .cs op .threw pend) : s'.maps = s.maps := by
  obtain ⟨_, hm, pend', hpc⟩ := C17_lin_point_inside_call hp hs
  rw [hpc] at hthrow
  injection hthrow with _ hr _
  rw [hm]; exact apply_threw_unchanged hr

/-- `mapLock` is released before the exception reaches the caller: at `exc` the thread holds nothing,
and it is back at rest (it may call the holder again). -/
theorem C20_soh_unwind_releases {s s' : St} {t : Tid} (h : Reachable s) (hs : step s t .exc = some s') :
    s.lock ≠ some t ∧ s'.lock ≠ some t ∧ s'.pc t = .idle ∧ s'.maps = s.maps := by
  have htr := step_tr hs
  cases htr with
  | exc op hp =>
    have hl : s.lock ≠ some t := by
      intro hl
      have := ((inv_reachable h).lk t).mp hl
      rw [hp] at this; simp [Pc.inCS] at this
    exact ⟨hl, hl, by simp, rfl⟩

/-- an exception is reported to the caller exactly for the calls whose specification result is `threw`
(it is the thread's last history entry) — never a normal return for them, never an exception otherwise -/
theorem C20_soh_exc_iff_spec_threw {s s' : St} {t : Tid} (h : Reachable s) (hs : step s t .exc = some s') :
    ∃ op, lastOf t s.hist = some ⟨t, op, .threw⟩ := by
  have htr := step_tr hs
  cases htr with
  | exc op hp => exact ⟨op, (inv_reachable h).h.mine t op .threw (by simp [hp, Pc.cur])⟩

/-- The holder stays usable by all threads: the state after the exception is an ordinary reachable
state (so mutual exclusion, linearizability, deadlock-freedom and the ledger hold for everything that
follows); in particular, whenever the lock is free every waiting caller can take it, and the thread
that caught the exception can call again. -/
theorem C20_soh_usable_after {s s' : St} {t : Tid} (h : Reachable s) (hs : step s t .exc = some s')
    (hg : s'.gone = false) :
    Reachable s' ∧ (∀ op, op.newId = none → (step s' t (.call op)).isSome = true) ∧
    (s'.lock = none → ∀ u op, s'.pc u = .called op → (step s' u .mlk).isSome = true) := by
  have hr' := reachable_step h hs
  have hidle := (C20_soh_unwind_releases h hs).2.2.1
  refine ⟨hr', fun op hn => by simp [step, hidle, hg, hn], fun hl u op hp => ?_⟩
  exact (C17_acquirer_enabled_when_free (t := u) hl hg).1 op hp

/-! Non-vacuity: objects `0 ↦ 1`, `1 ↦ 2`; thread 1's `removeObject(id == 2)` throws at the second
invocation (i.e. on the object it would have removed); thread 2, blocked meanwhile, then removes object 2
with the same predicate not throwing; thread 1's `findObject(always, throws at the 1st call)` throws too.
Maps after the two throws are what the successful calls made them; the lock is free; the history has
five entries, two of them `threw`. -/
example : ∃ s, Reachable s ∧ s.maps = ⟨[(0, 1)], []⟩ ∧ s.lock = none ∧ s.pc 1 = .idle ∧ s.hist.length = 5 ∧
    replay Maps.empty s.hist = some s.maps ∧ lastOf 1 s.hist = some ⟨1, .fp ⟨.always, 1⟩, .threw⟩ :=
  ⟨_, ⟨[(0, .call (.add 0 1)), (0, .mlk), (0, .mul), (0, .ret (.bool true)),
        (0, .call (.add 1 2)), (0, .mlk), (0, .mul), (0, .ret (.bool true)),
        (1, .call (.rp ⟨.idEq 2, 2⟩)), (2, .call (.rp ⟨.idEq 2, 0⟩)),
        (1, .mlk), (1, .pcl 1), (1, .pcl 2), (1, .uth), (1, .mul), (2, .mlk), (1, .exc),
        (2, .pcl 1), (2, .pcl 2), (2, .pdt 2), (2, .mul), (2, .ret (.bool true)),
        (1, .call (.fp ⟨.always, 1⟩)), (1, .mlk), (1, .pcl 1), (1, .uth), (1, .mul), (1, .exc)], rfl⟩,
   by decide, by decide, by decide, by decide, by decide, by decide⟩

end ConcVerif.SOH
