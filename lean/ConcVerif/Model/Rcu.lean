import ConcVerif.Base.TS
/-! Model of `gmlc::libguarded::rcu_list` + `rcu_guarded` (rcu_list.hpp, rcu_guarded.hpp) at the level of
the primitive operations the real code executes: atomics `m_head m_tail m_zombie_head`, the atomics
`next back` of every list node and `next owner` of every log record, the write mutex, the plain fields
`deleted`, `data`, `zombie_node` (plain-access tap) and the allocator calls `allocate / construct /
destroy / deallocate` (tracing allocator; blocks are named by kind and allocation order, `N k` nodes,
`Z k` log records).

Stage A (the exact program of today's header), except that the three relaxed / pre-publication
accesses (`m_zombie_head.load(relaxed)` before a push, `rec->next.store` before the publishing CAS,
`m_tail.load(relaxed)` under the mutex) are accepted with any memory order and — for the first — any
value; every other atomic access must be `seq_cst`.

Client program (one handle and one iterator per thread; a thread is a sequence of `call k … ret k`):
`lock w` (take a read / write handle; registration is lazy), `beg` (`it = h->begin()`), `nxt` (`++it`),
`der` (`*it`), `rel` (destroy the handle), `push front emplace v`, `erase adv` (`it = h->erase(it)`, or with the result dropped), and
finally `dtor` (list destructor; client obligation: no live handle).

`erase` allocates and constructs its zombie record BEFORE it flags / unlinks the node (so that a failing allocation
leaves the list untouched), then unlinks, then publishes the record on the log.

Allocation failures: the allocator may throw instead of allocating (`afl true` for a log record, `afl false` for a node) —
at the lazy registration of a handle (`call k, afl, exc k`: nothing happened, the handle is still unregistered), in
`push_* / emplace_*` under the mutex (`mlk, afl, mul, exc`) and in `erase` right after the `deleted` flag has been read
(`… pldDel, afl, mul, exc`): in all three cases nothing has been changed when the exception reaches the client.

The model does NOT check the allocation ledger or liveness of the blocks it touches: the ledger
(`nled`, `rled`) is ghost state updated by `alo / con / des / fre`, and the theorems (C13, C05) state
that every accepted `des / fre / access` hits a block in the right ledger state.

Ghost state: `log` (records pushed on `m_zombie_head` and not yet taken by a reclaimer, newest first),
`lst` (the linked nodes, in list order), `order` (every node ever linked, in list order), `live`
(threads holding a handle), `dt` (the list destructor has started). -/
namespace ConcVerif.Rcu

inductive Led | none | alloc | cons | dest | freed
  deriving DecidableEq, Repr

inductive Ord | rlx | con | acq | rel | ar | sc
  deriving DecidableEq, Repr

structure Node where
  next : Option Nat
  back : Option Nat
  deleted : Bool
  val : Int
  deriving DecidableEq, Repr

structure Rec where
  next : Option Nat
  owner : Option Tid      -- guard pointer; `some t` = the guard inside thread t's handle
  znode : Option Nat
  deriving DecidableEq, Repr

inductive Op
  | lock (w : Bool)
  | rel | beg | nxt | der
  | push (front emp : Bool) (v : Int)
  | erase (adv : Bool)          -- `it = h->erase(it)` (adv) or `h->erase(it)` with the result dropped
  | dtor
  deriving DecidableEq, Repr

inductive Hnd
  | none
  | fresh (w : Bool)            -- handle taken, never used: not registered
  | reg (w : Bool) (r : Nat)    -- registered with log record r
  deriving DecidableEq, Repr

def Hnd.isW : Hnd → Bool
  | .fresh w => w | .reg w _ => w | .none => false

/-- what happens after a record has been pushed on the log -/
inductive Cont
  | reg (k : Op)                    -- registration finished: continue with the body of `k`
  | erase (orig : Option Nat)       -- zombie record of an erase pushed: unlock, return `orig`
  deriving DecidableEq, Repr

inductive Fld
  | head | tail | zhead
  | nnext (n : Nat) | nback (n : Nat)
  | rnext (r : Nat) | rowner (r : Nat)
  deriving DecidableEq, Repr

inductive Ev
  | call (k : Op) | ret (k : Op) | exc (k : Op)
  | mlk | mul
  | alo (z : Bool) (id : Nat)                -- z: log record (`Z id`), else node (`N id`)
  | afl (z : Bool)                            -- the allocator throws instead of allocating a record / a node
  | conN (n : Nat) (v : Int)
  | conR (r : Nat) (owner : Option Tid) (zn : Option Nat)
  | des (z : Bool) (id : Nat)
  | fre (z : Bool) (id : Nat)
  | ald (f : Fld) (o : Ord) (v : Option Nat)
  | ast (f : Fld) (o : Ord) (v : Option Nat)
  | cas (o : Ord) (exp des : Option Nat) (ok : Bool) (obs : Option Nat)   -- on `m_zombie_head`
  | pldDel (n : Nat) (v : Bool) | pstDel (n : Nat) (v : Bool)
  | pldData (n : Nat) (v : Int) | pstData (n : Nat) (v : Int)
  | pldZn (r : Nat) (isnull : Bool) | pstZn (r : Nat) (isnull : Bool)
  deriving DecidableEq, Repr

inductive Pc
  | idle
  | called (k : Op)
  | retp (k : Op)
  -- pushing a record on the log (registration or erase)
  | regAlloc (k : Op) (r : Nat)
  | regCons (k : Op) (r : Nat)
  | pushStore (c : Cont) (r : Nat) (exp : Option Nat)
  | pushCas (c : Cont) (r : Nat) (exp : Option Nat)
  -- release = rcu_guard::unlock()
  | uOwner (r : Nat) (cached : Option Nat) (m : Nat)
  | uNext (r : Nat) (cached : Option Nat) (m : Nat)
  | rZn (r m : Nat)
  | rDesN (r m d : Nat)
  | rFreN (r m d : Nat)
  | rNext (r m : Nat)
  | rDesZ (r m : Nat) (nx : Option Nat)
  | rFreZ (r m : Nat) (nx : Option Nat)
  | uTrunc (r : Nat)
  | uClear (r : Nat)
  -- push_front / push_back / emplace_*
  | pAlloc (k : Op)
  | pCons (k : Op) (n : Nat)
  | pThrown (k : Op)
  | pExc (k : Op)
  | rExc (k : Op)                             -- the registration's allocation failed
  | pLoad (k : Op) (n : Nat)
  | pE1 (k : Op) (n : Nat)
  | pE2 (k : Op) (n : Nat)
  | pF1 (k : Op) (n h : Nat)
  | pF2 (k : Op) (n h : Nat)
  | pF3 (k : Op) (n : Nat)
  | pB1 (k : Op) (n h : Nat)
  | pB2 (k : Op) (n h : Nat)
  | pB3 (k : Op) (n : Nat)
  | pUnlock (k : Op)
  -- erase
  | eOrig (c : Nat) (adv : Bool)
  | eDel (c : Nat) (orig : Option Nat)
  | eAlloc (c : Nat) (orig : Option Nat)
  | eCons (c : Nat) (orig : Option Nat) (z : Nat)
  | eMark (c : Nat) (orig : Option Nat) (z : Nat)
  | eBack (c : Nat) (orig : Option Nat) (z : Nat)
  | eNext (c : Nat) (orig p : Option Nat) (z : Nat)
  | eUnl (c : Nat) (orig p x : Option Nat) (z : Nat)
  | eFix (c : Nat) (orig p x : Option Nat) (z : Nat)
  | eZh (orig : Option Nat) (z : Nat)
  | eUnlock (orig : Option Nat)
  -- ~rcu_list
  | dNext (m : Nat)
  | dDesN (m : Nat) (nx : Option Nat)
  | dFreN (m : Nat) (nx : Option Nat)
  | dZhead
  | dOwner (m : Nat)
  | dRNext (m : Nat)
  | dZn (m : Nat) (nx : Option Nat)
  | dDesZN (m : Nat) (nx : Option Nat) (d : Nat)
  | dFreZN (m : Nat) (nx : Option Nat) (d : Nat)
  | dDesZ (m : Nat) (nx : Option Nat)
  | dFreZ (m : Nat) (nx : Option Nat)
  deriving DecidableEq, Repr

structure St where
  nodes : Nat → Node
  recs : Nat → Rec
  nN : Nat                      -- number of node blocks allocated so far (next name)
  nR : Nat
  nled : Nat → Led              -- ghost: allocation ledger of node blocks
  rled : Nat → Led              -- ghost: allocation ledger of record blocks
  head : Option Nat
  tail : Option Nat
  zhead : Option Nat
  wmtx : Option Tid
  log : List Nat                -- ghost
  lst : List Nat                -- ghost
  order : List Nat              -- ghost
  live : List Tid               -- ghost
  dt : Bool                     -- ghost
  hnd : Tid → Hnd
  it : Tid → Option (Option Nat)
  pc : Tid → Pc

def node0 : Node := { next := none, back := none, deleted := false, val := 0 }
def rec0 : Rec := { next := none, owner := none, znode := none }

def init : St :=
  { nodes := fun _ => node0, recs := fun _ => rec0, nN := 0, nR := 0, nled := fun _ => .none, rled := fun _ => .none,
    head := none, tail := none, zhead := none, wmtx := none, log := [], lst := [], order := [], live := [], dt := false,
    hnd := fun _ => .none, it := fun _ => none, pc := fun _ => .idle }

def St.setPc (s : St) (t : Tid) (p : Pc) : St := { s with pc := upd s.pc t p }
def St.setNext (s : St) (n : Nat) (v : Option Nat) : St := { s with nodes := upd s.nodes n { s.nodes n with next := v } }
def St.setBack (s : St) (n : Nat) (v : Option Nat) : St := { s with nodes := upd s.nodes n { s.nodes n with back := v } }
def St.setDel (s : St) (n : Nat) (v : Bool) : St := { s with nodes := upd s.nodes n { s.nodes n with deleted := v } }
def St.setRNext (s : St) (r : Nat) (v : Option Nat) : St := { s with recs := upd s.recs r { s.recs r with next := v } }
def St.setOwner (s : St) (r : Nat) (v : Option Tid) : St := { s with recs := upd s.recs r { s.recs r with owner := v } }
def St.setNled (s : St) (n : Nat) (l : Led) : St := { s with nled := upd s.nled n l }
def St.setRled (s : St) (r : Nat) (l : Led) : St := { s with rled := upd s.rled r l }

def Ord.isSc : Ord → Bool
  | .sc => true | _ => false

/-- a reclaimer (or the destructor) moves its cursor to `n`: the record is taken off the log -/
def St.reapAt (s : St) (t : Tid) (r : Nat) (n : Option Nat) : St :=
  match n with
  | some m => { s with log := s.log.erase m }.setPc t (.rZn r m)
  | none => s.setPc t (.uTrunc r)

def St.dNodeAt (s : St) (t : Tid) (n : Option Nat) : St :=
  match n with
  | some m => s.setPc t (.dNext m)
  | none => s.setPc t .dZhead

def St.dRecAt (s : St) (t : Tid) (n : Option Nat) : St :=
  match n with
  | some m => { s with log := s.log.erase m }.setPc t (.dOwner m)
  | none => s.setPc t (.retp .dtor)

/-- the handle is released: owner cleared (or never registered) -/
def St.dropHnd (s : St) (t : Tid) : St :=
  { s with hnd := upd s.hnd t .none, it := upd s.it t none, live := s.live.erase t }

/-- executable step; `none` = the real code may not do this here -/
def step (s : St) (t : Tid) (e : Ev) : Option St :=
  match s.pc t with
  | .idle =>
    match e with
    | .call (.lock w) => if s.hnd t = .none ∧ s.dt = false then some (s.setPc t (.called (.lock w))) else none
    | .call .rel => if s.hnd t ≠ .none then some (s.setPc t (.called .rel)) else none
    | .call .beg => if s.hnd t ≠ .none then some (s.setPc t (.called .beg)) else none
    | .call .nxt =>
        match s.hnd t, s.it t with
        | .reg _ _, some (some _) => some (s.setPc t (.called .nxt))
        | _, _ => none
    | .call .der =>
        match s.hnd t, s.it t with
        | .reg _ _, some (some _) => some (s.setPc t (.called .der))
        | _, _ => none
    | .call (.push f em v) => if (s.hnd t).isW = true then some (s.setPc t (.called (.push f em v))) else none
    | .call (.erase adv) =>
        match s.hnd t, s.it t with
        | .reg true _, some (some _) => some (s.setPc t (.called (.erase adv)))
        | _, _ => none
    | .call .dtor => if s.live = [] ∧ s.dt = false then some ({ s with dt := true }.setPc t (.called .dtor)) else none
    | _ => none
  | .called k =>
    match k with
    | .lock w =>
      match e with
      | .ret (.lock w') =>
          if w' = w ∧ s.dt = false then some ({ s with hnd := upd s.hnd t (.fresh w), live := t :: s.live }.setPc t .idle) else none
      | _ => none
    | .rel =>
      match s.hnd t with
      | .fresh _ => match e with
        | .ret .rel => some ((s.dropHnd t).setPc t .idle)
        | _ => none
      | .reg _ r => match e with
        | .ald (.rnext r') o v =>
            if r' = r ∧ o.isSc = true ∧ v = (s.recs r).next then
              match v with
              | some m => some (s.setPc t (.uOwner r v m))
              | none => some (s.reapAt t r none)
            else none
        | _ => none
      | .none => none
    | .dtor =>
      match e with
      | .ald .head o v => if o.isSc = true ∧ v = s.head then some (s.dNodeAt t v) else none
      | _ => none
    | k =>
      match s.hnd t with
      | .none => none
      | .fresh _ =>
        match k, e with
        | .beg, .alo true r => if r = s.nR then some ({ s with nR := s.nR + 1 }.setRled r .alloc |>.setPc t (.regAlloc k r)) else none
        | .push _ _ _, .alo true r => if r = s.nR then some ({ s with nR := s.nR + 1 }.setRled r .alloc |>.setPc t (.regAlloc k r)) else none
        | .beg, .afl true => some (s.setPc t (.rExc k))
        | .push _ _ _, .afl true => some (s.setPc t (.rExc k))
        | _, _ => none
      | .reg w _ =>
        match k, e with
        | .beg, .ald .head o v => if o.isSc = true ∧ v = s.head then some ({ s with it := upd s.it t (some v) }.setPc t (.retp .beg)) else none
        | .nxt, .ald (.nnext n) o v =>
            if s.it t = some (some n) ∧ o.isSc = true ∧ v = (s.nodes n).next then
              some ({ s with it := upd s.it t (some v) }.setPc t (.retp .nxt)) else none
        | .der, .pldData n v =>
            if s.it t = some (some n) ∧ v = (s.nodes n).val then some (s.setPc t (.retp .der)) else none
        | .push _ _ _, .mlk => if w = true ∧ s.wmtx = none then some ({ s with wmtx := some t }.setPc t (.pAlloc k)) else none
        | .erase adv, .mlk =>
            match s.it t with
            | some (some c) => if w = true ∧ s.wmtx = none then some ({ s with wmtx := some t }.setPc t (.eOrig c adv)) else none
            | _ => none
        | _, _ => none
  | .retp k =>
    match e with
    | .ret k' => if k' = k then some (s.setPc t .idle) else none
    | _ => none
  -- ---- pushing a record ------------------------------------------------------------------------
  | .regAlloc k r =>
    match e with
    | .pstZn r' true => if r' = r then some s else none
    | .conR r' (some u) none =>
        if r' = r ∧ u = t then
          some ({ s with recs := upd s.recs r { next := none, owner := some t, znode := none } }.setRled r .cons |>.setPc t (.regCons k r))
        else none
    | _ => none
  | .regCons k r =>
    match e with
    | .ald .zhead _ v => some (s.setPc t (.pushStore (.reg k) r v))
    | _ => none
  | .pushStore c r exp =>
    match e with
    | .ast (.rnext r') _ v => if r' = r ∧ v = exp then some ((s.setRNext r exp).setPc t (.pushCas c r exp)) else none
    | _ => none
  | .pushCas c r exp =>
    match e with
    | .cas o exp' des ok obs =>
        if o.isSc = true ∧ exp' = exp ∧ des = some r ∧ obs = s.zhead ∧ (ok = true → obs = exp) then
          if ok = true then
            match c with
            | .reg k => some ({ s with zhead := some r, log := r :: s.log, hnd := upd s.hnd t (.reg (s.hnd t).isW r) }.setPc t (.called k))
            | .erase orig => some ({ s with zhead := some r, log := r :: s.log }.setPc t (.eUnlock orig))
          else some (s.setPc t (.pushStore c r obs))
        else none
    | _ => none
  -- ---- release -----------------------------------------------------------------------------------
  | .uOwner r cached m =>
    match e with
    | .ald (.rowner m') o v =>
        if m' = m ∧ o.isSc = true ∧ v = (s.recs m).owner then
          match v with
          | some _ => some (s.setPc t (.uClear r))
          | none => some (s.setPc t (.uNext r cached m))
        else none
    | _ => none
  | .uNext r cached m =>
    match e with
    | .ald (.rnext m') o v =>
        if m' = m ∧ o.isSc = true ∧ v = (s.recs m).next then
          match v with
          | some m2 => some (s.setPc t (.uOwner r cached m2))
          | none => some (s.reapAt t r cached)
        else none
    | _ => none
  | .rZn r m =>
    match e with
    | .pldZn m' isnull =>
        if m' = m ∧ isnull = (s.recs m).znode.isNone then
          match (s.recs m).znode with
          | some d => some (s.setPc t (.rDesN r m d))
          | none => some (s.setPc t (.rNext r m))
        else none
    | _ => none
  | .rDesN r m d =>
    match e with
    | .des false d' => if d' = d then some ((s.setNled d .dest).setPc t (.rFreN r m d)) else none
    | _ => none
  | .rFreN r m d =>
    match e with
    | .fre false d' => if d' = d then some ((s.setNled d .freed).setPc t (.rNext r m)) else none
    | _ => none
  | .rNext r m =>
    match e with
    | .ald (.rnext m') o v => if m' = m ∧ o.isSc = true ∧ v = (s.recs m).next then some (s.setPc t (.rDesZ r m v)) else none
    | _ => none
  | .rDesZ r m nx =>
    match e with
    | .des true m' => if m' = m then some ((s.setRled m .dest).setPc t (.rFreZ r m nx)) else none
    | _ => none
  | .rFreZ r m nx =>
    match e with
    | .fre true m' => if m' = m then some ((s.setRled m .freed).reapAt t r nx) else none
    | _ => none
  | .uTrunc r =>
    match e with
    | .ast (.rnext r') o v => if r' = r ∧ o.isSc = true ∧ v = none then some ((s.setRNext r none).setPc t (.uClear r)) else none
    | _ => none
  | .uClear r =>
    match e with
    | .ast (.rowner r') o v =>
        if r' = r ∧ o.isSc = true ∧ v = none then some (((s.setOwner r none).dropHnd t).setPc t (.retp .rel)) else none
    | _ => none
  -- ---- push_front / push_back ----------------------------------------------------------------------
  | .pAlloc k =>
    match e with
    | .alo false n => if n = s.nN then some ({ s with nN := s.nN + 1 }.setNled n .alloc |>.setPc t (.pCons k n)) else none
    | .afl false => some (s.setPc t (.pThrown k))
    | _ => none
  | .pCons k n =>
    match k with
    | .push f em x =>
      match e with
      | .pstDel n' false => if n' = n then some s else none
      | .pstData n' v => if n' = n ∧ v = x then some s else none
      | .conN n' v =>
          if n' = n ∧ v = x then
            some ({ s with nodes := upd s.nodes n { next := none, back := none, deleted := false, val := x } }.setNled n .cons
                    |>.setPc t (.pLoad (.push f em x) n))
          else none
      | .fre false n' => if n' = n then some ((s.setNled n .freed).setPc t (.pThrown k)) else none
      | _ => none
    | _ => none
  | .pThrown k =>
    match e with
    | .mul => if s.wmtx = some t then some ({ s with wmtx := none }.setPc t (.pExc k)) else none
    | _ => none
  | .pExc k =>
    match e with
    | .exc k' => if k' = k then some (s.setPc t .idle) else none
    | _ => none
  | .rExc k =>
    match e with
    | .exc k' => if k' = k then some (s.setPc t .idle) else none
    | _ => none
  | .pLoad k n =>
    match k with
    | .push true _ _ =>
      match e with
      | .ald .head o v =>
          if o.isSc = true ∧ v = s.head then
            match v with
            | none => some (s.setPc t (.pE1 k n))
            | some h => some (s.setPc t (.pF1 k n h))
          else none
      | _ => none
    | .push false _ _ =>
      match e with
      | .ald .tail _ v =>
          if v = s.tail then
            match v with
            | none => some (s.setPc t (.pE1 k n))
            | some h => some (s.setPc t (.pB1 k n h))
          else none
      | _ => none
    | _ => none
  | .pE1 k n =>
    match e with
    | .ast .head o v =>
        if o.isSc = true ∧ v = some n then
          some ({ s with head := some n, lst := n :: s.lst, order := n :: s.order }.setPc t (.pE2 k n)) else none
    | _ => none
  | .pE2 k n =>
    match e with
    | .ast .tail o v => if o.isSc = true ∧ v = some n then some ({ s with tail := some n }.setPc t (.pUnlock k)) else none
    | _ => none
  | .pF1 k n h =>
    match e with
    | .ast (.nnext n') o v => if n' = n ∧ o.isSc = true ∧ v = some h then some ((s.setNext n (some h)).setPc t (.pF2 k n h)) else none
    | _ => none
  | .pF2 k n h =>
    match e with
    | .ast (.nback h') o v => if h' = h ∧ o.isSc = true ∧ v = some n then some ((s.setBack h (some n)).setPc t (.pF3 k n)) else none
    | _ => none
  | .pF3 k n =>
    match e with
    | .ast .head o v =>
        if o.isSc = true ∧ v = some n then
          some ({ s with head := some n, lst := n :: s.lst, order := n :: s.order }.setPc t (.pUnlock k)) else none
    | _ => none
  | .pB1 k n h =>
    match e with
    | .ast (.nback n') o v => if n' = n ∧ o.isSc = true ∧ v = some h then some ((s.setBack n (some h)).setPc t (.pB2 k n h)) else none
    | _ => none
  | .pB2 k n h =>
    match e with
    | .ast (.nnext h') o v =>
        if h' = h ∧ o.isSc = true ∧ v = some n then
          some ({ (s.setNext h (some n)) with lst := s.lst ++ [n], order := s.order ++ [n] }.setPc t (.pB3 k n)) else none
    | _ => none
  | .pB3 k n =>
    match e with
    | .ast .tail o v => if o.isSc = true ∧ v = some n then some ({ s with tail := some n }.setPc t (.pUnlock k)) else none
    | _ => none
  | .pUnlock k =>
    match e with
    | .mul => if s.wmtx = some t then some ({ s with wmtx := none }.setPc t (.retp k)) else none
    | _ => none
  -- ---- erase -------------------------------------------------------------------------------------------
  | .eOrig c adv =>
    match e with
    | .ald (.nnext c') o v =>
        if c' = c ∧ o.isSc = true ∧ v = (s.nodes c).next then some (s.setPc t (.eDel c (if adv = true then v else some c))) else none
    | _ => none
  | .eDel c orig =>
    match e with
    | .pldDel c' d =>
        if c' = c ∧ d = (s.nodes c).deleted then
          some (s.setPc t (if d = true then .eUnlock orig else .eAlloc c orig))
        else none
    | _ => none
  -- the zombie record is allocated and constructed before the list is touched; if the allocation throws, erase leaves
  -- through its lock_guard with nothing changed
  | .eAlloc c orig =>
    match e with
    | .alo true z => if z = s.nR then some ({ s with nR := s.nR + 1 }.setRled z .alloc |>.setPc t (.eCons c orig z)) else none
    | .afl true => some (s.setPc t (.pThrown (.erase true)))
    | _ => none
  | .eCons c orig z =>
    match e with
    | .pstZn z' false => if z' = z then some s else none
    | .conR z' none (some c') =>
        if z' = z ∧ c' = c then
          some ({ s with recs := upd s.recs z { next := none, owner := none, znode := some c } }.setRled z .cons |>.setPc t (.eMark c orig z))
        else none
    | _ => none
  | .eMark c orig z =>
    match e with
    | .pstDel c' true => if c' = c then some ((s.setDel c true).setPc t (.eBack c orig z)) else none
    | _ => none
  | .eBack c orig z =>
    match e with
    | .ald (.nback c') o v => if c' = c ∧ o.isSc = true ∧ v = (s.nodes c).back then some (s.setPc t (.eNext c orig v z)) else none
    | _ => none
  | .eNext c orig p z =>
    match e with
    | .ald (.nnext c') o v => if c' = c ∧ o.isSc = true ∧ v = (s.nodes c).next then some (s.setPc t (.eUnl c orig p v z)) else none
    | _ => none
  | .eUnl c orig p x z =>
    match p with
    | some pp =>
      match e with
      | .ast (.nnext p') o v =>
          if p' = pp ∧ o.isSc = true ∧ v = x then
            some ({ (s.setNext pp x) with lst := s.lst.erase c }.setPc t (.eFix c orig p x z)) else none
      | _ => none
    | none =>
      match e with
      | .ast .head o v =>
          if o.isSc = true ∧ v = x then some ({ s with head := x, lst := s.lst.erase c }.setPc t (.eFix c orig p x z)) else none
      | _ => none
  | .eFix c orig p x z =>
    match x with
    | some xx =>
      match e with
      | .ast (.nback x') o v => if x' = xx ∧ o.isSc = true ∧ v = p then some ((s.setBack xx p).setPc t (.eZh orig z)) else none
      | _ => none
    | none =>
      match e with
      | .ast .tail o v => if o.isSc = true ∧ v = p then some ({ s with tail := p }.setPc t (.eZh orig z)) else none
      | _ => none
  | .eZh orig z =>
    match e with
    | .ald .zhead _ v => some (s.setPc t (.pushStore (.erase orig) z v))
    | _ => none
  | .eUnlock orig =>
    match e with
    | .mul => if s.wmtx = some t then some ({ s with wmtx := none, it := upd s.it t (some orig) }.setPc t (.retp (.erase true))) else none
    | _ => none
  -- ---- ~rcu_list -------------------------------------------------------------------------------------------
  | .dNext m =>
    match e with
    | .ald (.nnext m') o v => if m' = m ∧ o.isSc = true ∧ v = (s.nodes m).next then some (s.setPc t (.dDesN m v)) else none
    | _ => none
  | .dDesN m nx =>
    match e with
    | .des false m' => if m' = m then some ((s.setNled m .dest).setPc t (.dFreN m nx)) else none
    | _ => none
  | .dFreN m nx =>
    match e with
    | .fre false m' => if m' = m then some ({ (s.setNled m .freed) with lst := s.lst.erase m }.dNodeAt t nx) else none
    | _ => none
  | .dZhead =>
    match e with
    | .ald .zhead o v => if o.isSc = true ∧ v = s.zhead then some (s.dRecAt t v) else none
    | _ => none
  | .dOwner m =>
    match e with
    | .ald (.rowner m') o v => if m' = m ∧ o.isSc = true ∧ v = (s.recs m).owner ∧ v = none then some (s.setPc t (.dRNext m)) else none
    | _ => none
  | .dRNext m =>
    match e with
    | .ald (.rnext m') o v => if m' = m ∧ o.isSc = true ∧ v = (s.recs m).next then some (s.setPc t (.dZn m v)) else none
    | _ => none
  | .dZn m nx =>
    match e with
    | .pldZn m' isnull =>
        if m' = m ∧ isnull = (s.recs m).znode.isNone then
          match (s.recs m).znode with
          | some d => some (s.setPc t (.dDesZN m nx d))
          | none => some (s.setPc t (.dDesZ m nx))
        else none
    | _ => none
  | .dDesZN m nx d =>
    match e with
    | .pldZn m' isnull => if m' = m ∧ isnull = false then some s else none
    | .des false d' => if d' = d then some ((s.setNled d .dest).setPc t (.dFreZN m nx d)) else none
    | _ => none
  | .dFreZN m nx d =>
    match e with
    | .pldZn m' isnull => if m' = m ∧ isnull = false then some s else none
    | .fre false d' => if d' = d then some ((s.setNled d .freed).setPc t (.dDesZ m nx)) else none
    | _ => none
  | .dDesZ m nx =>
    match e with
    | .des true m' => if m' = m then some ((s.setRled m .dest).setPc t (.dFreZ m nx)) else none
    | _ => none
  | .dFreZ m nx =>
    match e with
    | .fre true m' => if m' = m then some ((s.setRled m .freed).dRecAt t nx) else none
    | _ => none

def run (es : List (Tid × Ev)) : Option St := runFrom step init es

def Reachable (s : St) : Prop := ∃ es, run es = some s

end ConcVerif.Rcu
