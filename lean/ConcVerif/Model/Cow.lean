import ConcVerif.Model.LR
/-! Model of `gmlc::libguarded::cow_guarded` (cow_guarded.hpp) at the level of the primitive operations the real
code executes.  `cow_guarded<T>` is `lr_guarded<std::shared_ptr<const T>> m_data` plus the writer mutex `m_writeMutex`:
the state EMBEDS the left-right model's state (`lr : LR.St`) and every primitive operation on `m_data` — the two flags,
the two reader counters, the inner write mutex, the accesses of the two `shared_ptr` copies — is delegated to `LR.step`,
the function the C03 theorems are about.  The value of an LR side (`List OpId`) is the list of version ids installed on
it; the version it points to is the last one (`cur`; version 0 is the one made by the constructor).

What today's code does (any number of threads, sequentially consistent interleaving):
* `lock_shared` and its three try forms (`k = 0..3`, the same code): LR read acquisition (`ald cl ; rmw cnt +1 ; ald rl`),
  copy of the `shared_ptr` stored in the side the handle points to (`ldPtr x v`: plain load of the pointer word,
  `ldCtl x`: of the control-block word, then one reference increment inside libstdc++), LR release (`rmw cnt -1`).
* `lock()`: `mlk wm` ; LR read acquisition ; `ldPtr x v` ; `pcp new v c` (T's copy constructor; `uth` if it throws) ;
  LR release ; the handle owns the private copy `new` and `wm`.  (`try_lock`, `try_lock_for`, `try_lock_until` are the
  same code — they BLOCK on `wm` — but cannot be instantiated: `return handle();` needs a default-constructible deleter.)
* handle destruction (`release`): `m_data.modify([newPtr](sptr){ sptr = newPtr; })` = `mlk lwm` ; first application on
  the side the flag points away from (`stPtr x v` ; [drop of the side's old reference] ; `stCtl x`) ; `ast rl` ; the two
  wait loops ; second application (which destroys the old version, `pdt o`, iff nothing else refers to it) ; `mul lwm` ;
  then `mul wm`.
* `cancel()`: `mul wm` ; `pdt` of the private copy.
* a snapshot (`shared_ptr<const T>`) is read (`prd v c`) and dropped (`call drop v` ; `pdt v` iff it was the last
  reference) by the client.

`shared_ptr` reference counts live inside libstdc++ and are not traced; the model keeps the ghost reference ledger
`snaps` (one entry per snapshot handle, in flight or owned by the client) and counts the two sides itself.  Inside an
assignment window (`stPtr x` .. `stCtl x`, field `det = some x`) side x gives up its reference to its old version at a
moment the trace does not show, so that reference is *uncertain*: it keeps nothing alive in the model (`refd` counts
only the other side and the snapshots), and whoever removes the last certain reference while the window is open — the
writer itself or a thread dropping a snapshot — may be the one that destroys the version.  `pdt v` is accepted only when
no certain reference to v exists and v has not been destroyed; a thread that drops the last reference outside a window
cannot return without `pdt`; a window cannot be closed while its old version is neither referenced nor destroyed.

Ghost state: `alloc` (ids ever constructed), `dead` (destroyed), `parent` (the version a copy was made from), `cont`
(payload value), `released` (versions whose release has unlocked `wm`, in that order). -/
namespace ConcVerif.Cow
open ConcVerif.LR (Side)

abbrev Ver := Nat

/-- the version a side points to: the last one installed; version 0 (made by the constructor) if none was -/
def cur : List Ver → Ver
  | [] => 0
  | [v] => v
  | _ :: w :: l => cur (w :: l)

/-- must a thread that has just dropped a snapshot destroy the version? -/
inductive Need
  | no      -- other references remain
  | maybe   -- only the uncertain reference of the side inside the open window remains: either party may destroy
  | must    -- it was the last reference
  deriving DecidableEq, Repr

inductive Pc
  | idle
  -- lock_shared forms
  | rdA (k : Nat)                     -- called; LR read acquisition in progress (side flag not yet loaded)
  | rdH (k : Nat) (g : Option Ver)    -- LR read handle held; g = version whose pointer word has been loaded
  | rdP (k : Nat) (v : Ver)           -- shared_ptr copied (both words loaded, reference taken); LR handle still held
  | rdD (k : Nat) (v : Ver)           -- LR handle released; before `ret`
  -- lock()
  | lkCalled                          -- before `mlk wm`
  | lkA                               -- holds wm; LR read acquisition in progress
  | lkH (g : Option Ver)              -- LR read handle held; g = pointer loaded from the side
  | lkC (v : Ver)                     -- private copy v constructed; LR handle still held
  | lkD (v : Ver)                     -- LR handle released; before `ret`
  | lkT                               -- T's copy constructor threw; LR handle still held
  | lkTD                              -- LR handle released; before `mul wm`
  | lkExc                             -- wm released; exception propagating
  | wHold (v : Ver)                   -- the client owns the write handle (private copy v, wm)
  -- release (handle destruction)
  | relA (v : Ver)                    -- inside m_data.modify; first application not complete
  | relB (v : Ver) (f : Bool)         -- first application complete; f: rl flipped (v committed)
  | relC (v : Ver)                    -- m_data.modify returned; before `mul wm`
  | relU (v : Ver)                    -- wm released; before `ret`
  -- cancel
  | cn (v : Ver) (u d : Bool)         -- u: wm released; d: private copy destroyed
  -- snapshot drop
  | dr (v : Ver) (need : Need)        -- reference removed
  deriving DecidableEq, Repr

inductive Call
  | lockShared (k : Nat)    -- lock_shared / try_lock_shared / _for / _until
  | lock
  | release                 -- destruction of a non-null, non-cancelled write handle
  | cancel
  | cancelNull              -- cancel() on a null (cancelled / moved-from) handle: no primitive operation
  | move                    -- move construction of the write handle: no primitive operation
  | drop (v : Ver)          -- destruction of a snapshot handle
  deriving DecidableEq, Repr

inductive Ev
  | call (c : Call) | ret (c : Call) | retGot (c : Call) (v : Ver) | exc (c : Call)
  | lr (e : LR.Ev)                    -- primitive operation on an atomic / the inner mutex of m_data
  | olock | ounlock                   -- `mlk wm` / `mul wm` (cow_guarded::m_writeMutex)
  | ldPtr (x : Side) (v : Ver)        -- plain load of side x's pointer word, observing version v
  | ldCtl (x : Side)                  -- plain load of side x's control-block word
  | stPtr (x : Side) (v : Ver)        -- plain store of side x's pointer word (assignment window opens)
  | stCtl (x : Side)                  -- plain store of side x's control-block word (window closes)
  | pcp (new src : Ver) (c : Nat)     -- T copy-constructed: new from src, value c
  | uth                               -- T's copy constructor throws
  | pwr (v : Ver) (c : Nat)           -- complete write of payload v through the write handle
  | prd (v : Ver) (c : Nat)           -- complete read of payload v
  | pdt (v : Ver)                     -- T destroyed
  | fin (vl vr : Ver) (c : Nat)       -- after the run: versions of the two sides, value
  deriving DecidableEq, Repr

structure St where
  lr : LR.St
  wm : Option Tid
  det : Option Side
  alloc : List Ver
  dead : List Ver
  parent : Ver → Ver
  cont : Ver → Nat
  snaps : List (Tid × Ver)
  released : List Ver
  pc : Tid → Pc

def St.setPc (s : St) (t : Tid) (p : Pc) : St := { s with pc := upd s.pc t p }

/-- version side x points to -/
def St.sv (s : St) (x : Side) : Ver := cur (s.lr.val x)

/-- side x holds a certain reference to v (x is not inside an assignment window) -/
def St.sideRef (s : St) (x : Side) (v : Ver) : Bool := s.sv x == v && s.det != some x

/-- some `shared_ptr` certainly refers to v -/
def St.refd (s : St) (v : Ver) : Bool := s.sideRef .L v || s.sideRef .R v || s.snaps.any (fun p => p.2 == v)

/-- the side inside the open assignment window still points to v (uncertain reference) -/
def St.winRef (s : St) (v : Ver) : Bool :=
  match s.det with
  | some x => s.sv x == v
  | none => false

def St.needOf (s : St) (v : Ver) : Need := if s.refd v then .no else if s.winRef v then .maybe else .must

def init (strict : Bool) : St :=
  { lr := LR.init strict, wm := none, det := none, alloc := [0], dead := [], parent := fun _ => 0, cont := fun _ => 0,
    snaps := [], released := [], pc := fun _ => .idle }

/-- loads / yields / counting-flag stores: delegated to the LR model without any effect on the cow layer -/
def neutral : LR.Ev → Bool
  | .ldCL _ | .ldRL _ | .ldCnt _ _ | .yld | .stCL _ => true
  | _ => false

def withLr (s : St) (l : LR.St) : St := { s with lr := l }

/-- LR read acquisition completes: `ald rl`, then the LR-level return -/
def lrGot (s : St) (t : Tid) (k : Nat) (x : Side) : Option LR.St :=
  (LR.step s.lr t (.ldRL x)).bind (fun l => LR.step l t (.ret (.ls k)))

/-- LR read handle destroyed: LR-level call, `rmw cnt -1`, LR-level return -/
def lrRel (s : St) (t : Tid) (c : Side) (old : Nat) : Option LR.St :=
  ((LR.step s.lr t (.call .rel)).bind (fun l => LR.step l t (.dec c old))).bind (fun l => LR.step l t (.ret .rel))

/-- complete read of side x through the LR handle -/
def lrRd (s : St) (t : Tid) (x : Side) : Option LR.St := LR.step s.lr t (.rd x (s.lr.val x))

/-! The step function, one small function per program counter. -/

def stepIdle (s : St) (t : Tid) : Ev → Option St
  | .call (.lockShared k) => (LR.step s.lr t (.call (.ls k))).map (fun l => (withLr s l).setPc t (.rdA k))
  -- snapshot use and drop
  | .prd v c => if (t, v) ∈ s.snaps ∧ c = s.cont v then some s else none
  | .call (.drop v) =>
      if (t, v) ∈ s.snaps then
        let s1 := { s with snaps := s.snaps.erase (t, v) }
        some (s1.setPc t (.dr v (s1.needOf v)))
      else none
  | .call .lock => some (s.setPc t .lkCalled)
  | .call .cancelNull => some s
  | .ret .cancelNull => some s
  -- end of run: both sides inspected while nobody holds a mutex
  | .fin vl vr c =>
      if s.wm = none ∧ s.lr.mtx = none ∧ vl = s.sv .L ∧ vr = s.sv .R ∧ c = s.cont vl then some s else none
  | _ => none

/-- lock_shared forms: LR read acquisition -/
def stepRdA (s : St) (t : Tid) (k : Nat) : Ev → Option St
  | .lr (.ldCL v) => (LR.step s.lr t (.ldCL v)).map (fun l => (withLr s l).setPc t (.rdA k))
  | .lr (.inc c old) => (LR.step s.lr t (.inc c old)).map (fun l => (withLr s l).setPc t (.rdA k))
  | .lr (.ldRL x) => (lrGot s t k x).map (fun l => (withLr s l).setPc t (.rdH k none))
  | _ => none

/-- lock_shared forms: copy of the shared_ptr under the LR read handle (pointer word, then control-block word) -/
def stepRdH (s : St) (t : Tid) (k : Nat) (g : Option Ver) : Ev → Option St
  | .ldPtr x v =>
      if g = none ∧ v = s.sv x then
        (lrRd s t x).map (fun l => ({ s with lr := l, snaps := (t, v) :: s.snaps }).setPc t (.rdH k (some v)))
      else none
  | .ldCtl x =>
      match g with
      | some v => (lrRd s t x).map (fun l => (withLr s l).setPc t (.rdP k v))
      | none => none
  | _ => none

/-- lock_shared forms: LR release -/
def stepRdP (s : St) (t : Tid) (k : Nat) (v : Ver) : Ev → Option St
  | .lr (.dec c old) => (lrRel s t c old).map (fun l => (withLr s l).setPc t (.rdD k v))
  | _ => none

def stepRdD (s : St) (t : Tid) (k : Nat) (v : Ver) : Ev → Option St
  | .retGot (.lockShared k') v' => if k' = k ∧ v' = v then some (s.setPc t .idle) else none
  | _ => none

def stepDr (s : St) (t : Tid) (v : Ver) (need : Need) : Ev → Option St
  | .pdt v' =>
      if v' = v ∧ need ≠ .no ∧ v ∉ s.dead ∧ s.refd v = false then some ({ s with dead := v :: s.dead }.setPc t (.dr v .no))
      else none
  | .ret (.drop v') => if v' = v ∧ need ≠ .must then some (s.setPc t .idle) else none
  | _ => none

def stepLkCalled (s : St) (t : Tid) : Ev → Option St
  | .olock =>
      if s.wm = none then (LR.step s.lr t (.call (.ls 0))).map (fun l => ({ s with lr := l, wm := some t }).setPc t .lkA)
      else none
  | _ => none

def stepLkA (s : St) (t : Tid) : Ev → Option St
  | .lr (.ldCL v) => (LR.step s.lr t (.ldCL v)).map (fun l => (withLr s l).setPc t .lkA)
  | .lr (.inc c old) => (LR.step s.lr t (.inc c old)).map (fun l => (withLr s l).setPc t .lkA)
  | .lr (.ldRL x) => (lrGot s t 0 x).map (fun l => (withLr s l).setPc t (.lkH none))
  | _ => none

def stepLkH (s : St) (t : Tid) (g : Option Ver) : Ev → Option St
  | .ldPtr x v =>
      if g = none ∧ v = s.sv x then (lrRd s t x).map (fun l => (withLr s l).setPc t (.lkH (some v))) else none
  | .pcp new src' c =>
      if g = some src' ∧ new ∉ s.alloc ∧ c = s.cont src' then
        some ({ s with alloc := new :: s.alloc, parent := fun w => if w = new then src' else s.parent w,
                       cont := fun w => if w = new then c else s.cont w }.setPc t (.lkC new))
      else none
  | .uth => if g ≠ none then some (s.setPc t .lkT) else none
  | _ => none

def stepLkC (s : St) (t : Tid) (v : Ver) : Ev → Option St
  | .lr (.dec c old) => (lrRel s t c old).map (fun l => (withLr s l).setPc t (.lkD v))
  | _ => none

def stepLkD (s : St) (t : Tid) (v : Ver) : Ev → Option St
  | .retGot .lock v' => if v' = v then some (s.setPc t (.wHold v)) else none
  | _ => none

def stepLkT (s : St) (t : Tid) : Ev → Option St
  | .lr (.dec c old) => (lrRel s t c old).map (fun l => (withLr s l).setPc t .lkTD)
  | _ => none

def stepLkTD (s : St) (t : Tid) : Ev → Option St
  | .ounlock => if s.wm = some t then some ({ s with wm := none }.setPc t .lkExc) else none
  | _ => none

def stepLkExc (s : St) (t : Tid) : Ev → Option St
  | .exc .lock => some (s.setPc t .idle)
  | _ => none

/-- the client owns the write handle -/
def stepWHold (s : St) (t : Tid) (v : Ver) : Ev → Option St
  | .pwr v' c => if v' = v then some { s with cont := fun w => if w = v then c else s.cont w } else none
  | .prd v' c => if (v' = v ∨ (t, v') ∈ s.snaps) ∧ c = s.cont v' then some s else none
  | .call .move => some s
  | .ret .move => some s
  | .call .release => (LR.step s.lr t (.call (.modify v))).map (fun l => (withLr s l).setPc t (.relA v))
  | .call .cancel => some (s.setPc t (.cn v false false))
  | _ => none

/-- release, until the first application (on the side the flag points away from) is complete -/
def stepRelA (s : St) (t : Tid) (v : Ver) : Ev → Option St
  | .lr .lock => (LR.step s.lr t .lock).map (fun l => (withLr s l).setPc t (.relA v))
  | .stPtr x v' =>
      if v' = v then (LR.step s.lr t (.fBegin x)).map (fun l => ({ s with lr := l, det := some x }).setPc t (.relA v))
      else none
  | .stCtl x =>
      if s.det = some x ∧ (s.sv x ∈ s.dead ∨ s.refd (s.sv x) = true) then
        (LR.step s.lr t (.fEnd x (s.lr.val x ++ [v]))).map (fun l => ({ s with lr := l, det := none }).setPc t (.relB v false))
      else none
  | .ldCtl x => if s.det = some x then some s else none     -- the assignment re-reads the old control word
  | .lr e => if neutral e then (LR.step s.lr t e).map (fun l => (withLr s l).setPc t (.relA v)) else none
  | _ => none

/-- release, after the first application: flip, wait loops, second application, inner unlock -/
def stepRelB (s : St) (t : Tid) (v : Ver) (f : Bool) : Ev → Option St
  | .lr (.stRL y) =>
      if f = false then (LR.step s.lr t (.stRL y)).map (fun l => (withLr s l).setPc t (.relB v true)) else none
  | .stPtr x v' =>
      if v' = v then (LR.step s.lr t (.fBegin x)).map (fun l => ({ s with lr := l, det := some x }).setPc t (.relB v f))
      else none
  | .pdt o =>      -- inside the window: the old version of the side being assigned, if nothing else refers to it
      if s.winRef o = true ∧ o ∉ s.dead ∧ s.refd o = false then some { s with dead := o :: s.dead } else none
  | .stCtl x =>
      if s.det = some x ∧ (s.sv x ∈ s.dead ∨ s.refd (s.sv x) = true) then
        (LR.step s.lr t (.fEnd x (s.lr.val x ++ [v]))).map (fun l => ({ s with lr := l, det := none }).setPc t (.relB v f))
      else none
  | .ldCtl x => if s.det = some x then some s else none
  | .lr .unlock => if f = true then (LR.step s.lr t .unlock).map (fun l => (withLr s l).setPc t (.relC v)) else none
  | .lr e => if neutral e then (LR.step s.lr t e).map (fun l => (withLr s l).setPc t (.relB v f)) else none
  | _ => none

def stepRelC (s : St) (t : Tid) (v : Ver) : Ev → Option St
  | .ounlock =>
      if s.wm = some t then
        (LR.step s.lr t (.ret (.modify v))).map (fun l =>
          ({ s with lr := l, wm := none, released := s.released ++ [v] }).setPc t (.relU v))
      else none
  | _ => none

def stepRelU (s : St) (t : Tid) : Ev → Option St
  | .ret .release => some (s.setPc t .idle)
  | _ => none

/-- cancel(): unlock and destruction of the private copy, in either order -/
def stepCn (s : St) (t : Tid) (v : Ver) (u d : Bool) : Ev → Option St
  | .ounlock => if u = false ∧ s.wm = some t then some ({ s with wm := none }.setPc t (.cn v true d)) else none
  | .pdt v' => if d = false ∧ v' = v then some ({ s with dead := v :: s.dead }.setPc t (.cn v u true)) else none
  | .ret .cancel => if u = true ∧ d = true then some (s.setPc t .idle) else none
  | _ => none

/-- executable step: `none` = the model does not allow this event here -/
def step (s : St) (t : Tid) (e : Ev) : Option St :=
  match s.pc t with
  | .idle => stepIdle s t e
  | .rdA k => stepRdA s t k e
  | .rdH k g => stepRdH s t k g e
  | .rdP k v => stepRdP s t k v e
  | .rdD k v => stepRdD s t k v e
  | .dr v need => stepDr s t v need e
  | .lkCalled => stepLkCalled s t e
  | .lkA => stepLkA s t e
  | .lkH g => stepLkH s t g e
  | .lkC v => stepLkC s t v e
  | .lkD v => stepLkD s t v e
  | .lkT => stepLkT s t e
  | .lkTD => stepLkTD s t e
  | .lkExc => stepLkExc s t e
  | .wHold v => stepWHold s t v e
  | .relA v => stepRelA s t v e
  | .relB v f => stepRelB s t v f e
  | .relC v => stepRelC s t v e
  | .relU _ => stepRelU s t e
  | .cn v u d => stepCn s t v u d e

def run (s : St) (es : List (Tid × Ev)) : Option St := runFrom step s es

def Reachable (s : St) : Prop := ∃ strict es, run (init strict) es = some s

end ConcVerif.Cow
