import ConcVerif.Base.TS
/-! Model of `gmlc::concurrency::Latch` (Latch.hpp) at the level of the primitive operations the
real code executes: the atomic counter, the mutex, the condition variable.

Thread-local discipline (what the proofs need), per public method:
* `arrive`  : `mlk` ; `rmw counter -1` ; `ald counter` ; (`cna` iff that load returned 0) ; `mul`
* `wait`    : `ald counter` (fast path, no lock) ; if > 0: `mlk` ; loop { `ald counter` ; > 0 ⇒ `cwt` `cwk` } ; `mul`
* `arrive_and_wait` = `arrive` then `wait` in one call.
Any number of threads; spurious wake-ups are ordinary `cwk spurious` events. -/
namespace ConcVerif.Latch

inductive Kind | arrive | wait | aaw
  deriving DecidableEq, Repr

/-- the two public methods that contain the wait loop -/
inductive WKind | wait | aaw
  deriving DecidableEq, Repr

def WKind.toKind : WKind → Kind
  | .wait => .wait
  | .aaw => .aaw

inductive Pc
  | idle
  | aCalled (k : Kind)      -- inside arrive, before `mlk`
  | aLocked (k : Kind)      -- holds mtx, before the decrement
  | aDec (k : Kind)         -- decremented, before the `== 0` load
  | aNotify (k : Kind)      -- loaded 0, before `notify_all`
  | aUnlock (k : Kind)      -- before `mul`
  | aRet                    -- before `ret arrive`
  | wCalled (k : WKind)      -- inside wait, before the unlocked fast-path load
  | wLock (k : WKind)        -- fast path saw > 0, before `mlk`
  | wLocked (k : WKind)      -- holds mtx, before the loop-condition load
  | wWait (k : WKind)        -- loop condition saw > 0, before `cv.wait`
  | wSleep (k : WKind)       -- inside `cv.wait` (mutex released, in the wait set unless notified)
  | wUnlock (k : WKind)      -- loop condition saw ≤ 0, before `mul`
  | wRet (k : WKind)         -- before `ret wait` / `ret aaw`
  deriving DecidableEq, Repr

inductive Wake | notified | spurious
  deriving DecidableEq, Repr

inductive Ev
  | call (k : Kind)
  | ret (k : Kind)
  | mlk | mul
  | dec (old : Int)         -- `rmw counter seq_cst add -1 old`
  | ld (v : Int)            -- `ald counter seq_cst v`
  | cna
  | cwt
  | cwk (r : Wake)
  deriving DecidableEq, Repr

structure St where
  start : Int
  counter : Int
  mtx : Option Tid
  waiters : List Tid
  arrived : Nat            -- ghost: number of decrements performed so far
  pc : Tid → Pc

def init (start : Int) : St :=
  { start := start, counter := start, mtx := none, waiters := [], arrived := 0, pc := fun _ => .idle }

def St.setPc (s : St) (t : Tid) (p : Pc) : St := { s with pc := upd s.pc t p }

/-- executable step; `none` = the real code may not do this here -/
def step (s : St) (t : Tid) (e : Ev) : Option St :=
  match s.pc t, e with
  | .idle, .call .arrive => some (s.setPc t (.aCalled .arrive))
  | .idle, .call .aaw => some (s.setPc t (.aCalled .aaw))
  | .idle, .call .wait => some (s.setPc t (.wCalled .wait))
  | .aCalled k, .mlk => if s.mtx = none then some ({ s with mtx := some t }.setPc t (.aLocked k)) else none
  | .aLocked k, .dec old =>
      if old = s.counter then
        some ({ s with counter := s.counter - 1, arrived := s.arrived + 1 }.setPc t (.aDec k)) else none
  | .aDec k, .ld v =>
      if v = s.counter then some (s.setPc t (if v = 0 then .aNotify k else .aUnlock k)) else none
  | .aNotify k, .cna => some ({ s with waiters := [] }.setPc t (.aUnlock k))
  | .aUnlock k, .mul =>
      if s.mtx = some t then
        some ({ s with mtx := none }.setPc t (if k = Kind.aaw then Pc.wCalled .aaw else Pc.aRet)) else none
  | .aRet, .ret .arrive => some (s.setPc t .idle)
  | .wCalled k, .ld v =>
      if v = s.counter then some (s.setPc t (if v > 0 then .wLock k else .wRet k)) else none
  | .wLock k, .mlk => if s.mtx = none then some ({ s with mtx := some t }.setPc t (.wLocked k)) else none
  | .wLocked k, .ld v =>
      if v = s.counter then some (s.setPc t (if v > 0 then .wWait k else .wUnlock k)) else none
  | .wWait k, .cwt =>
      if s.mtx = some t then
        some ({ s with mtx := none, waiters := t :: s.waiters }.setPc t (.wSleep k)) else none
  | .wSleep k, .cwk r =>
      if s.mtx = none then
        match r with
        | .notified =>
            if t ∈ s.waiters then none else some ({ s with mtx := some t }.setPc t (.wLocked k))
        | .spurious =>
            if t ∈ s.waiters then
              some ({ s with mtx := some t, waiters := s.waiters.erase t }.setPc t (.wLocked k)) else none
      else none
  | .wUnlock k, .mul => if s.mtx = some t then some ({ s with mtx := none }.setPc t (.wRet k)) else none
  | .wRet k, .ret k' => if k' = k.toKind then some (s.setPc t .idle) else none
  | _, _ => none

def run (start : Int) (es : List (Tid × Ev)) : Option St := runFrom step (init start) es

def Reachable (start : Int) (s : St) : Prop := ∃ es, run start es = some s

end ConcVerif.Latch
