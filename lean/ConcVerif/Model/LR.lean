import ConcVerif.Base.TS
/-! Model of `gmlc::libguarded::lr_guarded` (lr_guarded.hpp) at the level of the primitive operations the
real code executes: the two seq_cst flags `m_readingLeft` (`rl`) / `m_countingLeft` (`cl`), the two reader
counters, the write mutex, and the accesses of the two payload copies (as whole-object windows).

Any number of threads, sequentially consistent interleaving.  What today's code does:

* `lock_shared` (and its three `try_` forms, which are the same code):
  `ald cl` ; `rmw cnt[c] +1` ; `ald rl` ; — handle holds side `rl`, registered in counter `c` —
  reads of that side ; deleter: `rmw cnt[c] -1`.
* `modify(f)`: `mlk wm` ; `ald rl` (= l) ; `f(side ¬l)` ; `ast rl ¬l` ; `ald cl` (= c) ;
  spin { `ald cnt[¬c]` ; `yld` } until 0 ; `ast cl ¬c` ; spin { `ald cnt[c]` ; `yld` } until 0 ; `f(side l)` ; `mul wm`.
  If the first application throws: `side ¬l := side l` (roll back), `mul`, rethrow.
  If the second application throws: `side l := side ¬l` (roll forward), `mul`, rethrow.

Stage B (DESIGN §3.5): readers are modelled exactly (C14 counts their steps); the WRITER is the weakest discipline
the proofs need:
* it holds the write mutex from `mlk` to `mul`; `l` is the value of `rl` when it took the mutex (it need not load it);
* it applies the functor first to side `¬l` (the side the flag points away from), then stores `rl := ¬l`;
* between that store and the second application (pc `wWait op l zL zR`) it may do anything with the flags and
  counters — load `rl`, `cl`, either counter, store `cl`, yield, in any order and number — `zL zR` record whether
  counter L / R has been observed at zero since the store (`zeroSeen`);
* the second application (on side `l`), or the functor's throw that leads to the roll-forward copy onto `l`, is
  accepted only when BOTH counters have been seen at zero since the flip;
* redundant consistent loads are accepted everywhere between `mlk` and `mul`.
So swapping the two wait loops, extra loads, a cached flag value, `fetch_add` for `++`, `unique_lock` for `lock_guard`
stay accepted, while a missing wait, a wait on one counter twice, a flip before the first write, a write without the
mutex or on the wrong side are rejected.  The choreography of `m_countingLeft` is not needed for safety; it matters for
writer progress (C14) and is checked in *strict* mode only (`strict = true`, component `lr_strict`): a wait
iteration — a counter load that returns non-zero — is accepted only on a counter new readers are not directed to.

Payload values are ghost-free model state: `valL valR : List OpId` is the list of operation ids applied to each
copy (the harness payload really is such a list, so the values are compared with the observed ones at every
completed write / copy / read).  Between `fBegin x` / `cpBegin x` and the matching `fEnd` / `cpEnd` the real
content of side `x` is unspecified (possibly torn); the model keeps the last completely written value and the
invariants show that no reader holds `x` in such a window.

Ghost state: registered-reader lists `regL regR` (their lengths are the counters), `committed` (operations whose
flip of `rl` has happened, in order — the linearisation order of `modify`), `base` (`committed` when the current
mutex holder took the lock), `snap t` (`committed` when thread `t` last called `lock_shared`), `lastSeen t`
(the value thread `t` last read). -/
namespace ConcVerif.LR

abbrev OpId := Nat

inductive Side | L | R
  deriving DecidableEq, Repr

def Side.flip : Side → Side
  | .L => .R
  | .R => .L

@[simp] theorem Side.flip_flip (s : Side) : s.flip.flip = s := by cases s <;> rfl
@[simp] theorem Side.flip_ne (s : Side) : s.flip ≠ s := by cases s <;> simp [Side.flip]
@[simp] theorem Side.ne_flip (s : Side) : s ≠ s.flip := by cases s <;> simp [Side.flip]

inductive Pc
  | idle
  -- reader
  | rdCalled                    -- inside lock_shared, before `ald cl`
  | rdCL (c : Side)             -- counting flag loaded, before the increment
  | rdInc (c : Side)            -- registered in counter `c`, before `ald rl`
  | rdGot (c s : Side)          -- side flag loaded: the handle points to side `s`; before `ret`
  | rdHold (c s : Side)         -- the caller owns the handle
  | rdRel (c s : Side)          -- handle being destroyed, before the decrement
  | rdRelD                      -- deregistered, before `ret`
  -- writer
  | wCalled (op : OpId)         -- inside modify, before `mlk`
  | wA (op : OpId) (l : Side)   -- holds the write mutex (rl = l when it was taken), before the first application (on side ¬l)
  | wF1 (op : OpId) (l : Side)  -- inside the first application
  | wF1d (op : OpId) (l : Side) -- first application complete, before `ast rl`
  | wRb (op : OpId) (l : Side)  -- first application threw, before the roll-back copy
  | wRbC (op : OpId) (l : Side) -- inside the roll-back copy  side ¬l := side l
  | wRbD (op : OpId) (l : Side) -- rolled back, before `mul`
  | wWait (op : OpId) (l : Side) (zL zR : Bool)
                                -- rl flipped to ¬l; waiting for the readers of side l; zL / zR: counter L / R has been
                                -- observed at zero since the flip; the second application needs both
  | wF2 (op : OpId) (l : Side)  -- inside the second application
  | wF2d (op : OpId) (l : Side) -- second application complete, before `mul`
  | wRf (op : OpId) (l : Side)  -- second application threw, before the roll-forward copy
  | wRfC (op : OpId) (l : Side) -- inside the roll-forward copy  side l := side ¬l
  | wRfD (op : OpId) (l : Side) -- rolled forward, before `mul`
  | wRet (op : OpId)            -- unlocked, before `ret`
  | wExc (op : OpId) (fwd : Bool) -- unlocked, exception propagating (fwd: thrown by the second application)
  deriving DecidableEq, Repr

inductive Call
  | ls (variant : Nat)          -- lock_shared / try_lock_shared / _for / _until (0..3)
  | rel                         -- handle destruction
  | modify (op : OpId)
  deriving DecidableEq, Repr

inductive Ev
  | call (k : Call) | ret (k : Call) | exc (k : Call)
  | ldCL (v : Side) | ldRL (v : Side)             -- `ald cl/rl seq_cst v`
  | stRL (v : Side) | stCL (v : Side)             -- `ast rl/cl seq_cst v`
  | inc (c : Side) (old : Nat) | dec (c : Side) (old : Nat)   -- `rmw cnt[c] seq_cst add ±1 old`
  | ldCnt (c : Side) (v : Nat)                    -- `ald cnt[c] seq_cst v`
  | lock | unlock                                 -- `mlk wm` / `mul wm`
  | yld
  | fBegin (x : Side)                             -- user functor starts writing side x
  | fEnd (x : Side) (v : List OpId)               -- ... finished; side x now holds v
  | uth                                           -- user functor throws
  | cpBegin (x : Side)                            -- copy assignment onto side x starts
  | cpEnd (x : Side) (v : List OpId)              -- ... finished; side x now holds v
  | rd (x : Side) (v : List OpId)                 -- complete read of side x through a handle
  | fin (l r : List OpId)                         -- after the run: the two copies
  deriving DecidableEq, Repr

structure St where
  strict : Bool          -- configuration: also enforce the writer-progress discipline (C14)
  rl : Side
  cl : Side
  regL : List Tid
  regR : List Tid
  mtx : Option Tid
  valL : List OpId
  valR : List OpId
  committed : List OpId
  base : List OpId
  snap : Tid → List OpId
  lastSeen : Tid → List OpId
  pc : Tid → Pc

def St.reg (s : St) : Side → List Tid
  | .L => s.regL
  | .R => s.regR

def St.setReg (s : St) (c : Side) (l : List Tid) : St :=
  match c with
  | .L => { s with regL := l }
  | .R => { s with regR := l }

def St.val (s : St) : Side → List OpId
  | .L => s.valL
  | .R => s.valR

def St.setVal (s : St) (x : Side) (v : List OpId) : St :=
  match x with
  | .L => { s with valL := v }
  | .R => { s with valR := v }

def St.setPc (s : St) (t : Tid) (p : Pc) : St := { s with pc := upd s.pc t p }

def init (strict : Bool) : St :=
  { strict := strict, rl := .L, cl := .L, regL := [], regR := [], mtx := none, valL := [], valR := [], committed := [], base := [],
    snap := fun _ => [], lastSeen := fun _ => [], pc := fun _ => .idle }

/-- pcs between `mlk` and `mul` -/
def Pc.post : Pc → Bool
  | .wA _ _ | .wF1 _ _ | .wF1d _ _ | .wRb _ _ | .wRbC _ _ | .wRbD _ _ | .wWait _ _ _ _
  | .wF2 _ _ | .wF2d _ _ | .wRf _ _ | .wRfC _ _ | .wRfD _ _ => true
  | _ => false

/-- a redundant seq_cst load by the mutex holder (value consistent with memory) changes nothing -/
def stutter (s : St) : Ev → Option St
  | .ldRL v => if v = s.rl then some s else none
  | .ldCL v => if v = s.cl then some s else none
  | .ldCnt c v => if v = (s.reg c).length then some s else none
  | _ => none

/-- `zeroSeen` of counter `c` -/
def zOf (c : Side) (zL zR : Bool) : Bool :=
  match c with
  | .L => zL
  | .R => zR

/-- the waiting pc after counter `c` has been observed at zero -/
def waitSeen (op : OpId) (l : Side) (zL zR : Bool) (c : Side) : Pc :=
  match c with
  | .L => .wWait op l true zR
  | .R => .wWait op l zL true

/-- executable step: `none` = the model does not allow this event here -/
def step (s : St) (t : Tid) (e : Ev) : Option St :=
  match s.pc t, e with
  -- reader: lock_shared
  | .idle, .call (.ls _) => some ({ s with snap := upd s.snap t s.committed }.setPc t .rdCalled)
  | .rdCalled, .ldCL v => if v = s.cl then some (s.setPc t (.rdCL v)) else none
  | .rdCL c, .inc c' old =>
      if c' = c ∧ old = (s.reg c).length then some ((s.setReg c (t :: s.reg c)).setPc t (.rdInc c)) else none
  | .rdInc c, .ldRL v => if v = s.rl then some (s.setPc t (.rdGot c v)) else none
  | .rdGot c x, .ret (.ls _) => some (s.setPc t (.rdHold c x))
  -- reader: use and destroy the handle
  | .rdHold c x, .rd x' v =>
      if x' = x ∧ v = s.val x then some ({ s with lastSeen := upd s.lastSeen t v }.setPc t (.rdHold c x)) else none
  | .rdHold c x, .call .rel => some (s.setPc t (.rdRel c x))
  | .rdRel c _, .dec c' old =>
      if c' = c ∧ old = (s.reg c).length then some ((s.setReg c ((s.reg c).erase t)).setPc t .rdRelD) else none
  | .rdRelD, .ret .rel => some (s.setPc t .idle)
  -- writer: modify
  | .idle, .call (.modify op) => some (s.setPc t (.wCalled op))
  | .wCalled op, .lock =>
      if s.mtx = none then some ({ s with mtx := some t, base := s.committed }.setPc t (.wA op s.rl)) else none
  | .wA op l, .fBegin x => if x = l.flip then some (s.setPc t (.wF1 op l)) else none
  | .wA op l, .uth => some (s.setPc t (.wRb op l))
  | .wF1 op l, .fEnd x v =>
      if x = l.flip ∧ v = s.val x ++ [op] then some ((s.setVal x v).setPc t (.wF1d op l)) else none
  | .wF1 op l, .uth => some (s.setPc t (.wRb op l))
  | .wF1d op l, .uth => some (s.setPc t (.wRb op l))
  | .wF1d op l, .stRL v =>
      if v = l.flip then some ({ s with rl := v, committed := s.committed ++ [op] }.setPc t (.wWait op l false false)) else none
  | .wRb op l, .cpBegin x => if x = l.flip then some (s.setPc t (.wRbC op l)) else none
  | .wRbC op l, .cpEnd x v =>
      if x = l.flip ∧ v = s.val l then some ((s.setVal x v).setPc t (.wRbD op l)) else none
  | .wRbD op _, .unlock => if s.mtx = some t then some ({ s with mtx := none }.setPc t (.wExc op false)) else none
  | .wWait op l zL zR, .ldCnt c v =>
      if v = (s.reg c).length then
        (if v = 0 then some (s.setPc t (waitSeen op l zL zR c))
         else if s.strict = true ∧ s.cl = c then none else some s)
      else none
  | .wWait _ _ _ _, .yld => some s
  | .wWait _ _ _ _, .stCL v => some { s with cl := v }
  | .wWait op l zL zR, .fBegin x => if x = l ∧ zL = true ∧ zR = true then some (s.setPc t (.wF2 op l)) else none
  | .wWait op l zL zR, .uth => if zL = true ∧ zR = true then some (s.setPc t (.wRf op l)) else none
  | .wF2 op l, .fEnd x v =>
      if x = l ∧ v = s.val x ++ [op] then some ((s.setVal x v).setPc t (.wF2d op l)) else none
  | .wF2 op l, .uth => some (s.setPc t (.wRf op l))
  | .wF2d op l, .uth => some (s.setPc t (.wRf op l))
  | .wF2d op _, .unlock => if s.mtx = some t then some ({ s with mtx := none }.setPc t (.wRet op)) else none
  | .wRf op l, .cpBegin x => if x = l then some (s.setPc t (.wRfC op l)) else none
  | .wRfC op l, .cpEnd x v =>
      if x = l ∧ v = s.val l.flip then some ((s.setVal x v).setPc t (.wRfD op l)) else none
  | .wRfD op _, .unlock => if s.mtx = some t then some ({ s with mtx := none }.setPc t (.wExc op true)) else none
  | .wRet op, .ret (.modify op') => if op' = op then some (s.setPc t .idle) else none
  | .wExc op _, .exc (.modify op') => if op' = op then some (s.setPc t .idle) else none
  -- end of run: both copies inspected by an idle thread while nobody holds the write mutex
  | .idle, .fin l r => if s.mtx = none ∧ l = s.valL ∧ r = s.valR then some s else none
  -- redundant loads by the mutex holder
  | p, e => if p.post then stutter s e else none

def run (s : St) (es : List (Tid × Ev)) : Option St := runFrom step s es

def Reachable (s : St) : Prop := ∃ strict es, run (init strict) es = some s

end ConcVerif.LR
