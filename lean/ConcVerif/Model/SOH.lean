import ConcVerif.Base.TS
/-! Model of `gmlc::concurrency::SearchableObjectHolder<X, Y>` (SearchableObjectHolder.hpp).

Two layers in ONE `step` function.

(a) Sequential specification `apply : Maps → Op → Maps × Res` over two association lists kept
    sorted by key, exactly like the two `std::map`s of the class (`objectMap : name → shared_ptr<X>`,
    `typeMap : name → vector<Y>`), one case per public method, quirks included:
    * `addObject` / `copyObject` use `emplace`, which never replaces;
    * `addObject(name, obj, type)` `emplace`s the tag vector, so an orphan tag entry left by an
      earlier `addType` on an unknown name survives and the new type is NOT recorded;
    * `addType` on an unknown name creates an (orphan) tag entry; `removeObject(name)` on an unknown
      name leaves such an entry alone;
    * predicate forms scan in key order and stop at the first match; a predicate may throw at its
      j-th invocation (`Pred.thr`), in which case nothing is changed and the result is `threw`.
(b) Concurrent layer: every call is exactly one critical section of `mapLock`
    `call op` ; `mlk` ; (`pcl k`)* ; [`uth`] ; `mul` ; `ret r` | `exc`
    The specification is applied at the lock acquisition (the linearisation point), the result is
    remembered in the pc and `ret` must carry exactly that result; `pcl k` (the client's predicate
    was invoked on object `k`) must follow the scan order of the specification.  So accepting a
    trace IS the differential test of the real class against the specification, under concurrency.
    Ghost reference ledger for the objects: `held` (references owned by callers: arguments in
    flight, results not yet dropped), `created`, `dead`; the payload destructor's `pdt k` is accepted
    only if neither a map entry nor a caller-held reference refers to `k` (`shared_ptr` counting
    itself is trusted).
    Plain accesses to the two map objects (`mac`, seen through the plain-access tap on their tree headers)
    are accepted only from the thread that holds `mapLock` (or from the destructor after its final release).
    Destructor (default build, no `ENABLE_TRIPWIRE`): lock; while the object map is not empty and
    fewer than 7 rounds: unlock, `yield` (odd round) / `sleep_for` (even round), lock; unlock; the
    maps die. -/
namespace ConcVerif.SOH

abbrev Name := Nat
abbrev ObjId := Nat
abbrev Ty := Nat

/-! ### sorted association lists (`std::map`) -/

def lookup {α : Type} (n : Nat) : List (Nat × α) → Option α
  | [] => none
  | (m, v) :: r => if n = m then some v else lookup n r

/-- `std::map::emplace`: insert at the sorted position unless the key is already present -/
def emplace {α : Type} (n : Nat) (v : α) : List (Nat × α) → List (Nat × α)
  | [] => [(n, v)]
  | (m, w) :: r =>
      if n < m then (n, v) :: (m, w) :: r
      else if n = m then (m, w) :: r
      else (m, w) :: emplace n v r

/-- `std::map::erase(find(n))` -/
def erase {α : Type} (n : Nat) : List (Nat × α) → List (Nat × α)
  | [] => []
  | (m, w) :: r => if n = m then r else (m, w) :: erase n r

/-- `typeMap[n].push_back(ty)` -/
def pushTag (n : Nat) (ty : Ty) : List (Nat × List Ty) → List (Nat × List Ty)
  | [] => [(n, [ty])]
  | (m, w) :: r =>
      if n < m then (n, [ty]) :: (m, w) :: r
      else if n = m then (m, w ++ [ty]) :: r
      else (m, w) :: pushTag n ty r

/-! ### operations, results, predicates -/

inductive PBase
  | idEq (k : ObjId)
  | always
  | never
  deriving DecidableEq, Repr

def PBase.eval : PBase → ObjId → Bool
  | .idEq k, x => decide (x = k)
  | .always, _ => true
  | .never, _ => false

/-- a user predicate: its truth value on an object and the invocation (1-based, counted within one
call of the holder) at which it throws; `thr = 0`: never throws -/
structure Pred where
  base : PBase
  thr : Nat
  deriving DecidableEq, Repr

inductive Op
  | add (n : Name) (k : ObjId)                 -- addObject(name, obj)
  | addT (n : Name) (k : ObjId) (ty : Ty)      -- addObject(name, obj, type)
  | addType (n : Name) (ty : Ty)
  | empty
  | get                                        -- getObjects()
  | rm (n : Name)                              -- removeObject(name)
  | rp (p : Pred)                              -- removeObject(predicate)
  | cp (a b : Name)                            -- copyObject(from, to)
  | chk (n : Name) (ty : Ty)                   -- checkObjectType
  | find (n : Name)                            -- findObject(name)
  | fp (p : Pred)                              -- findObject(predicate)
  | fpt (p : Pred) (ty : Ty)                   -- findObject(predicate, type)
  deriving DecidableEq, Repr

inductive Res
  | unit
  | bool (b : Bool)
  | obj (o : Option ObjId)
  | objs (l : List ObjId)
  | threw
  deriving DecidableEq, Repr

structure Maps where
  objs : List (Name × ObjId)
  tags : List (Name × List Ty)
  deriving DecidableEq, Repr

def Maps.empty : Maps := ⟨[], []⟩

def hasType (tags : List (Name × List Ty)) (n : Name) (ty : Ty) : Bool :=
  match lookup n tags with
  | some l => l.contains ty
  | none => false

inductive Scan
  | found (n : Name) (k : ObjId)
  | none
  | threw
  deriving DecidableEq, Repr

/-- scan the object map in key order: `c` invocations of the predicate were made before -/
def scan (p : Pred) (ok : Name → Bool) : Nat → List (Name × ObjId) → Scan
  | _, [] => .none
  | c, (n, k) :: r =>
      if p.thr = c + 1 then .threw
      else if p.base.eval k && ok n then .found n k
      else scan p ok (c + 1) r

/-- the objects the predicate is invoked on, in order (the throwing invocation is the last one) -/
def calls (p : Pred) (ok : Name → Bool) : Nat → List (Name × ObjId) → List ObjId
  | _, [] => []
  | c, (n, k) :: r =>
      if p.thr = c + 1 then [k]
      else if p.base.eval k && ok n then [k]
      else k :: calls p ok (c + 1) r

def anyName : Name → Bool := fun _ => true

/-- the sequential specification: one case per public method -/
def apply (m : Maps) : Op → Maps × Res
  | .add n k => ({ m with objs := emplace n k m.objs }, .bool (lookup n m.objs).isNone)
  | .addT n k ty =>
      match lookup n m.objs with
      | some _ => ({ m with objs := emplace n k m.objs }, .bool false)
      | none => ({ objs := emplace n k m.objs, tags := emplace n [ty] m.tags }, .bool true)
  | .addType n ty => ({ m with tags := pushTag n ty m.tags }, .unit)
  | .empty => (m, .bool m.objs.isEmpty)
  | .get => (m, .objs (m.objs.map (·.2)))
  | .rm n =>
      match lookup n m.objs with
      | some _ => ({ objs := erase n m.objs, tags := erase n m.tags }, .bool true)
      | none => (m, .bool false)
  | .rp p =>
      match scan p anyName 0 m.objs with
      | .found n _ => ({ objs := erase n m.objs, tags := erase n m.tags }, .bool true)
      | .none => (m, .bool false)
      | .threw => (m, .threw)
  | .cp a b =>
      match lookup a m.objs with
      | none => (m, .bool false)
      | some k =>
          match lookup b m.objs with
          | some _ => ({ m with objs := emplace b k m.objs }, .bool false)
          | none =>
              ({ objs := emplace b k m.objs,
                 tags := match lookup a m.tags with
                   | some l => emplace b l m.tags
                   | none => m.tags }, .bool true)
  | .chk n ty => (m, .bool (hasType m.tags n ty))
  | .find n => (m, .obj (lookup n m.objs))
  | .fp p =>
      (m, match scan p anyName 0 m.objs with
          | .found _ k => .obj (some k)
          | .none => .obj none
          | .threw => .threw)
  | .fpt p ty =>
      (m, match scan p (fun n => hasType m.tags n ty) 0 m.objs with
          | .found _ k => .obj (some k)
          | .none => .obj none
          | .threw => .threw)

/-- predicate invocations the call makes in state `m` -/
def predCalls (m : Maps) : Op → List ObjId
  | .rp p => calls p anyName 0 m.objs
  | .fp p => calls p anyName 0 m.objs
  | .fpt p ty => calls p (fun n => hasType m.tags n ty) 0 m.objs
  | _ => []

/-- the object a call brings with it -/
def Op.newId : Op → Option ObjId
  | .add _ k => some k
  | .addT _ k _ => some k
  | _ => none

/-- the objects a result hands to the caller -/
def Res.ids : Res → List ObjId
  | .obj (some k) => [k]
  | .objs l => l
  | _ => []

/-! ### concurrent layer -/

structure HEntry where
  t : Tid
  op : Op
  res : Res
  deriving DecidableEq, Repr

inductive Pc
  | idle
  | called (op : Op)                                   -- inside the method, before `mlk`
  | cs (op : Op) (res : Res) (pend : List ObjId)        -- holds mapLock; `pend`: predicate invocations still to come
  | thrown (op : Op)                                   -- holds mapLock, the predicate threw (unwinding)
  | unlocked (op : Op) (res : Res)                     -- released, before `ret` / `exc`
  | dCalled                                            -- destructor, before the first `mlk`
  | dLocked (c : Nat)                                  -- destructor holds mapLock, `c` rounds done
  | dWait (c : Nat)                                    -- released, before yield / sleep_for of round `c`
  | dRelock (c : Nat)                                  -- before re-locking in round `c`
  | dDone                                              -- final release done, the maps are gone
  deriving DecidableEq, Repr

inductive Ev
  | call (op : Op)
  | mlk
  | mul
  | pcl (k : ObjId)      -- the predicate was invoked on object `k`
  | uth                  -- ... and that invocation throws
  | ret (r : Res)
  | exc                  -- the exception reached the caller
  | rel (k : ObjId)      -- the caller drops one reference to `k`
  | pdt (k : ObjId)      -- the payload destructor of `k` runs
  | callD
  | retD
  | yld
  | slp
  | mac                  -- a plain access to one of the two std::map objects (plain-access tap)
  deriving DecidableEq, Repr

structure St where
  maps : Maps
  lock : Option Tid
  pc : Tid → Pc
  hist : List HEntry               -- ghost: operations in linearisation order with their results
  held : List (Tid × ObjId)        -- ghost: references owned by callers (multiset)
  created : List ObjId             -- ghost: every object id ever brought to the holder
  dead : List ObjId                -- ghost: destroyed objects
  dt : Bool                        -- the destructor has been entered
  gone : Bool                      -- the destructor has made its final release

def init : St :=
  { maps := Maps.empty, lock := none, pc := fun _ => .idle, hist := [], held := [], created := [], dead := [],
    dt := false, gone := false }

def St.setPc (s : St) (t : Tid) (p : Pc) : St := { s with pc := upd s.pc t p }

/-- the call's argument reference is consumed, its result references are handed out -/
def heldAfter (t : Tid) (op : Op) (r : Res) (held : List (Tid × ObjId)) : List (Tid × ObjId) :=
  r.ids.map (fun k => (t, k)) ++
    (match op.newId with
     | some k => held.erase (t, k)
     | none => held)

/-- executable step; `none` = the real code may not do this here -/
def step (s : St) (t : Tid) (e : Ev) : Option St :=
  match s.pc t, e with
  | _, .pdt k =>
      if k ∈ s.created ∧ k ∉ s.dead ∧ (∀ x ∈ s.maps.objs, x.2 ≠ k) ∧ (∀ h ∈ s.held, h.2 ≠ k) then
        some { s with dead := k :: s.dead } else none
  | .idle, .call op =>
      if s.gone = false then
        match op.newId with
        | some k =>
            if k ∉ s.created then
              some ({ s with created := k :: s.created, held := (t, k) :: s.held }.setPc t (.called op)) else none
        | none => some (s.setPc t (.called op))
      else none
  | .idle, .rel k =>
      if (t, k) ∈ s.held then some { s with held := s.held.erase (t, k) } else none
  | .called op, .mlk =>
      if s.lock = none ∧ s.gone = false then
        some ({ s with lock := some t, maps := (apply s.maps op).1,
                       hist := s.hist ++ [HEntry.mk t op (apply s.maps op).2],
                       held := heldAfter t op (apply s.maps op).2 s.held }.setPc t
                (.cs op (apply s.maps op).2 (predCalls s.maps op)))
      else none
  | .cs op res (k' :: pend), .pcl k => if k = k' then some (s.setPc t (.cs op res pend)) else none
  | .cs op res [], .uth => if res = .threw then some (s.setPc t (.thrown op)) else none
  | .cs op res [], .mul =>
      if res ≠ .threw ∧ s.lock = some t then some ({ s with lock := none }.setPc t (.unlocked op res)) else none
  | .thrown op, .mul =>
      if s.lock = some t then some ({ s with lock := none }.setPc t (.unlocked op .threw)) else none
  | .unlocked _ res, .ret r => if r = res ∧ res ≠ .threw then some (s.setPc t .idle) else none
  | .unlocked _ res, .exc => if res = .threw then some (s.setPc t .idle) else none
  | .idle, .callD =>
      if s.gone = false ∧ s.dt = false then some ({ s with dt := true }.setPc t .dCalled) else none
  | .dCalled, .mlk => if s.lock = none then some ({ s with lock := some t }.setPc t (.dLocked 0)) else none
  | .dLocked c, .mul =>
      if s.lock = some t then
        if s.maps.objs = [] ∨ 7 ≤ c then
          some ({ s with lock := none, maps := Maps.empty, gone := true }.setPc t .dDone)
        else some ({ s with lock := none }.setPc t (.dWait (c + 1)))
      else none
  | .dWait c, .yld => if c % 2 = 1 then some (s.setPc t (.dRelock c)) else none
  | .dWait c, .slp => if c % 2 = 0 then some (s.setPc t (.dRelock c)) else none
  | .dRelock c, .mlk => if s.lock = none then some ({ s with lock := some t }.setPc t (.dLocked c)) else none
  | .dDone, .retD => some (s.setPc t .idle)
  | p, .mac => if s.lock = some t ∨ p = .dDone then some s else none
  | _, _ => none

def run (es : List (Tid × Ev)) : Option St := runFrom step init es

def Reachable (s : St) : Prop := ∃ es, run es = some s

end ConcVerif.SOH
