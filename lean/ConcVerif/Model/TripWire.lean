import ConcVerif.Base.TS
/-! Model of `gmlc::concurrency::TripWire`, `TripWireTrigger`, `TripWireDetector` (TripWire.hpp) at the
level of the primitive operations the real code executes: one `atomic<bool>` per line.

* Lines: `decl` (the `DECLARE_TRIPLINE` static), `idx k` (entry `k` of the `DECLARE_INDEXED_TRIPLINES(n)`
  static table, `k < n`), `expl k` (lines made by `make_tripline` / `make_triplines`).  Unboundedly many.
* Trigger objects `trig id : Option (Option LineId)`: `none` = no such object, `some none` = alive but
  moved-from (empty `shared_ptr`), `some (some l)` = alive and holding line `l`.  Detectors `det id`.
* Thread-local discipline (stage B — what the proofs need), per operation:
  - constructor from an index: `at()` ⇒ the object is bound to table entry `k` iff `k < n`, otherwise the
    call ends with the exception and NOTHING changes; no atomic operation;
  - move construction / move assignment: no atomic operation; the binding travels, the source is empty,
    the overwritten binding of an assignment target is dropped without a store;
  - `~TripWireTrigger`: the object's lifetime ends; iff it held line `l`: exactly one store of `true` to `l`
    with an order at least `release` (an `exchange` of `true` is accepted as well); an empty trigger
    performs no store at all;
  - `isTripped`: at least one load of the detector's own line with an order at least `acquire`; the
    result is the value of the last load;
* Ghost view for the publication clause: every thread has a list `know t` of the plain writes it knows
  about (its own and those it acquired); a release store attaches the storing thread's list to the line
  (`msg`), an acquire load joins the line's list into the loading thread's.  A plain store to a line by
  another thread REPLACES the message (it does not continue a release sequence); an RMW extends it.
  `trips l` is the history of tripping stores on `l`: (thread, what it knew at the store), newest first.
* Client data (`pwr d v` / `prd d v`): plain cells of the client; a read is accepted only if it returns
  the latest value AND the reader knows that write (otherwise the access would be a data race). -/
namespace ConcVerif.TripWire

inductive LineId
  | decl
  | idx (k : Nat)
  | expl (k : Nat)
  deriving DecidableEq, Repr

/-- what a constructor is given: nothing (declared line), an index, or a line -/
inductive Src
  | decl
  | idx (k : Nat)
  | line (l : LineId)
  deriving DecidableEq, Repr

inductive Ord | rlx | con | acq | rel | ar | sc
  deriving DecidableEq, Repr

def Ord.isRelease : Ord → Bool
  | .rel | .ar | .sc => true
  | _ => false

def Ord.isAcquire : Ord → Bool
  | .acq | .ar | .sc => true
  | _ => false

/-- a plain write of the client: (datum, value) -/
abbrev Wr := Nat × Nat

inductive Pc
  | idle
  | mkT (id : Nat) (r : Option LineId)     -- inside a trigger constructor; `r` = what the lookup gives (`none` = throws)
  | mkD (id : Nat) (r : Option LineId)
  | mv (new old : Nat)                      -- move construction
  | as (dst src : Nat)                      -- move assignment
  | cp (new old : Nat)                      -- detector copy
  | rm (id : Nat) (held : Option LineId) (done : Bool)  -- destructor; `held` = binding at entry; `done` = store performed
  | rd (id : Nat)
  | ck (d : Nat) (l : LineId) (seen : Option Bool)      -- isTripped; `seen` = last value loaded in this call
  deriving DecidableEq, Repr

inductive Ev
  | fork
  | callMkT (id : Nat) (src : Src) | retMkT (id : Nat) (r : Option LineId)     -- `r = none`: std::out_of_range
  | callMkD (id : Nat) (src : Src) | retMkD (id : Nat) (r : Option LineId)
  | callMv (new old : Nat) | retMv (new old : Nat) (ln lo : Option LineId)       -- bindings seen after the move
  | callAs (dst src : Nat) | retAs (dst src : Nat) (ld ls : Option LineId)
  | callCp (new old : Nat) | retCp (new old : Nat) (ln lo : Option LineId)
  | callRm (id : Nat) | retRm (id : Nat)
  | callRd (id : Nat) | retRd (id : Nat)
  | callCk (d : Nat) | retCk (d : Nat) (v : Bool)
  | ld (l : LineId) (o : Ord) (v : Bool)                 -- `ald l o v`
  | st (l : LineId) (o : Ord) (v : Bool)                 -- `ast l o v`
  | xchg (l : LineId) (o : Ord) (new old : Bool)         -- `axc l o new old`
  | pwr (d v : Nat) | prd (d v : Nat)
  deriving DecidableEq, Repr

structure St where
  nIdx : Nat                              -- size of the indexed table
  line : LineId → Bool
  msg : LineId → List Wr                  -- ghost: view attached to the line's current value
  trips : LineId → List (Tid × List Wr)   -- ghost: tripping stores so far (thread, its knowledge then)
  trig : Nat → Option (Option LineId)
  det : Nat → Option LineId
  data : Nat → Nat                        -- client data, 0 = never written
  know : Tid → List Wr                    -- ghost: writes each thread knows about
  forked : List Tid
  pc : Tid → Pc

def init (n : Nat) : St :=
  { nIdx := n, line := fun _ => false, msg := fun _ => [], trips := fun _ => [], trig := fun _ => none,
    det := fun _ => none, data := fun _ => 0, know := fun _ => [], forked := [], pc := fun _ => .idle }

/-- `TripWire::getLine` / `getIndexedLine` / the explicit-line constructors: `none` = throws -/
def lookup (n : Nat) : Src → Option LineId
  | .decl => some .decl
  | .idx k => if k < n then some (.idx k) else none
  | .line l => some l

/-- update of a map at one key (lines, objects, data) -/
def set {κ α : Type} [DecidableEq κ] (f : κ → α) (k : κ) (a : α) : κ → α := fun x => if x = k then a else f x

def St.setPc (s : St) (t : Tid) (p : Pc) : St := { s with pc := upd s.pc t p }

/-- the tripping store / exchange of thread `t` on line `l`; `ext` = the operation was an RMW -/
def St.trip (s : St) (t : Tid) (l : LineId) (ext : Bool) : St :=
  { s with line := set s.line l true,
           msg := set s.msg l (if ext then s.msg l ++ s.know t else s.know t),
           trips := set s.trips l ((t, s.know t) :: s.trips l) }

/-- executable step; `none` = the real code may not do this here -/
def step (s : St) (t : Tid) (e : Ev) : Option St :=
  match s.pc t, e with
  -- thread start: everything the main thread (0) did before starting the threads is known
  | .idle, .fork =>
      if t ≠ 0 ∧ t ∉ s.forked then
        some { s with forked := t :: s.forked, know := upd s.know t (s.know t ++ s.know 0) } else none
  -- constructors
  | .idle, .callMkT id src => if s.trig id = none then some (s.setPc t (.mkT id (lookup s.nIdx src))) else none
  | .mkT id r, .retMkT id' r' =>
      if id' = id ∧ r' = r then
        match r with
        | none => some (s.setPc t .idle)
        | some l => some ({ s with trig := set s.trig id (some (some l)) }.setPc t .idle)
      else none
  | .idle, .callMkD id src => if s.det id = none then some (s.setPc t (.mkD id (lookup s.nIdx src))) else none
  | .mkD id r, .retMkD id' r' =>
      if id' = id ∧ r' = r then
        match r with
        | none => some (s.setPc t .idle)
        | some l => some ({ s with det := set s.det id (some l) }.setPc t .idle)
      else none
  -- move construction: new object takes the binding, the source is left empty
  | .idle, .callMv new old =>
      if s.trig new = none ∧ (s.trig old).isSome ∧ new ≠ old then some (s.setPc t (.mv new old)) else none
  | .mv new old, .retMv new' old' ln lo =>
      match s.trig old with
      | some b =>
          if new' = new ∧ old' = old ∧ ln = b ∧ lo = none then
            some ({ s with trig := set (set s.trig old (some none)) new (some b) }.setPc t .idle) else none
      | none => none
  -- move assignment: the target takes the source's binding (its own is dropped, nothing is stored)
  | .idle, .callAs dst src =>
      if (s.trig dst).isSome ∧ (s.trig src).isSome then some (s.setPc t (.as dst src)) else none
  | .as dst src, .retAs dst' src' ld ls =>
      match s.trig src with
      | some b =>
          if dst' = dst ∧ src' = src then
            if dst = src then (if ld = b ∧ ls = b then some (s.setPc t .idle) else none)
            else if ld = b ∧ ls = none then
              some ({ s with trig := set (set s.trig src (some none)) dst (some b) }.setPc t .idle) else none
          else none
      | none => none
  -- detector copy
  | .idle, .callCp new old =>
      if s.det new = none ∧ (s.det old).isSome then some (s.setPc t (.cp new old)) else none
  | .cp new old, .retCp new' old' ln lo =>
      match s.det old with
      | some l =>
          if new' = new ∧ old' = old ∧ ln = some l ∧ lo = some l then
            some ({ s with det := set s.det new (some l) }.setPc t .idle) else none
      | none => none
  -- trigger destructor: the object's lifetime ends at entry
  | .idle, .callRm id =>
      match s.trig id with
      | some b => some ({ s with trig := set s.trig id none }.setPc t (.rm id b false))
      | none => none
  | .rm id (some l) false, .st l' o v =>
      if l' = l ∧ v = true ∧ o.isRelease = true then some ((s.trip t l false).setPc t (.rm id (some l) true)) else none
  | .rm id (some l) false, .xchg l' o new old =>
      if l' = l ∧ new = true ∧ old = s.line l ∧ o.isRelease = true then
        some ((s.trip t l true).setPc t (.rm id (some l) true)) else none
  | .rm id held done, .retRm id' =>
      if id' = id ∧ (held = none ∨ done = true) then some (s.setPc t .idle) else none
  -- detector destructor
  | .idle, .callRd id => if (s.det id).isSome then some ({ s with det := set s.det id none }.setPc t (.rd id)) else none
  | .rd id, .retRd id' => if id' = id then some (s.setPc t .idle) else none
  -- isTripped
  | .idle, .callCk d =>
      match s.det d with
      | some l => some (s.setPc t (.ck d l none))
      | none => none
  | .ck d l _, .ld l' o v =>
      if l' = l ∧ o.isAcquire = true ∧ v = s.line l then
        some ({ s with know := upd s.know t (s.know t ++ s.msg l) }.setPc t (.ck d l (some v))) else none
  | .ck d _ (some v), .retCk d' v' => if d' = d ∧ v' = v then some (s.setPc t .idle) else none
  -- client data
  | .idle, .pwr d v =>
      if v ≠ 0 ∧ (s.data d = 0 ∨ (d, s.data d) ∈ s.know t) then
        some { s with data := set s.data d v, know := upd s.know t ((d, v) :: s.know t) } else none
  | .idle, .prd d v => if v = s.data d ∧ (v = 0 ∨ (d, v) ∈ s.know t) then some s else none
  | _, _ => none

def run (n : Nat) (es : List (Tid × Ev)) : Option St := runFrom step (init n) es

def Reachable (n : Nat) (s : St) : Prop := ∃ es, run n es = some s

end ConcVerif.TripWire
