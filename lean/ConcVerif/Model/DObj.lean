import ConcVerif.Base.TS
/-! Model of `gmlc::concurrency::DelayedObjects<X>` (DelayedObjects.hpp): four `std::map`s of
`std::promise<X>` behind one mutex `promiseLock`.

Two layers.
* **Sequential specification** `Seq.apply` — one pure function per public method (int and string keys are
  the two constructors of `Key`; the copy and move overloads of `setDelayedValue` differ only by the `mv`
  flag, which the specification ignores), mirroring the code including its quirks:
  `getFuture` for a key that is still pending *replaces* the pending promise (the replaced promise is
  abandoned: its future gets `broken_promise`); `getFuture` for a completed key leaves the completed entry
  in place next to the new pending one; `setDelayedValue` / `fulfillAllPromises` overwrite a completed entry
  of the same key.  `promise : Id → PState` is the state of every `std::promise` ever created
  (`unset` = not yet satisfied).  Calling `set_value` on a promise that is not `unset` throws
  `promise_already_satisfied` in the real code; the specification is *undefined* (`none`) there, and the
  theorems show that this never happens in a reachable state.
* **Concurrent layer** `step` — every call is `call` ; `mlk promiseLock` ; (`pset v`)* ; `mul promiseLock` ;
  `ret`.  The specification is applied at the `mlk` (the linearisation point); it yields the result the
  `ret` must carry and the multiset of `set_value` calls (`pset`) the critical section must perform before
  its `mul`.  Plain accesses to the four map objects (`acc`) are allowed only while the lock is held (and to
  the destructor after its critical section: member destruction).  Consumers observe futures by `got`. -/
namespace ConcVerif.DObj

/-- keys: `int` index or `std::string` name (strings are `s<n>` in the harness; `n` is the code) -/
inductive Key
  | i (k : Int)
  | s (k : Nat)
  deriving DecidableEq, Repr

abbrev Id := Nat
abbrev Val := Int

/-- state of one `std::promise` / its shared state -/
inductive PState
  | unset
  | val (v : Val)
  | broken
  deriving DecidableEq, Repr

/-! ### association lists standing for `std::map<Key, std::promise<X>>` -/
abbrev AList := List (Key × Id)

/-- `map.find(k)` -/
def lookup (k : Key) : AList → Option Id
  | [] => none
  | e :: r => if e.1 = k then some e.2 else lookup k r

/-- `map.erase(k)` -/
def erase (k : Key) (l : AList) : AList := l.filter (fun e => e.1 ≠ k)

/-- `map[k] = std::move(p)` -/
def insert (k : Key) (p : Id) (l : AList) : AList := (k, p) :: erase k l

/-- `for (auto& pr : a) b[pr.first] = std::move(pr.second);` -/
def moveAll (a b : AList) : AList := a ++ b.filter (fun e => lookup e.1 a = none)

inductive Op
  | get (k : Key) (p : Id)             -- getFuture(k); `p` names the promise created by this call
  | set (k : Key) (v : Val) (mv : Bool) -- setDelayedValue(k, v); mv = rvalue overload
  | ful (v : Val)                      -- fulfillAllPromises(v)
  | isRec (k : Key)
  | isComp (k : Key)
  | fin (k : Key)                      -- finishedWithValue(k)
  | dtor                               -- ~DelayedObjects()
  deriving DecidableEq, Repr

inductive Res
  | unit
  | bool (b : Bool)
  deriving DecidableEq, Repr

/-- the sequential object -/
structure Seq where
  pending : AList            -- promiseByInteger ∪ promiseByString
  used : AList               -- usedPromiseByInteger ∪ usedPromiseByString
  promise : Id → PState
  handed : List Id           -- ghost: promises whose future was handed out
  dead : Bool                -- destructor has run

def Seq.init : Seq := { pending := [], used := [], promise := fun _ => .unset, handed := [], dead := false }

/-- every promise in the map can still take a value (otherwise `set_value` throws) -/
def allUnset (f : Id → PState) (l : AList) : Bool := l.all (fun e => f e.2 = .unset)

/-- `set_value(v)` on every promise of the map -/
def fulfil (f : Id → PState) (l : AList) (v : Val) : Id → PState :=
  fun q => if q ∈ l.map (·.2) then .val v else f q

/-- `map[k] = std::move(V)` on an existing entry abandons the promise stored there: if it was not yet
satisfied its shared state is made ready with `broken_promise` -/
def breakOld (f : Id → PState) : Option Id → Id → PState
  | some q => if f q = .unset then upd f q .broken else f
  | none => f

/-- the methods on a live container: new state, result, `set_value` calls performed -/
def Seq.app (σ : Seq) : Op → Option (Seq × Res × List (Id × Val))
  | .get k p =>
      if p ∈ σ.handed then none else
      some ({ σ with pending := insert k p σ.pending, promise := breakOld σ.promise (lookup k σ.pending),
                     handed := p :: σ.handed }, .unit, [])
  | .set k v _ =>
      match lookup k σ.pending with
      | none => some (σ, .unit, [])
      | some p =>
          if σ.promise p = .unset then
            some ({ σ with pending := erase k σ.pending, used := insert k p σ.used,
                           promise := upd σ.promise p (.val v) }, .unit, [(p, v)])
          else none
  | .ful v =>
      if allUnset σ.promise σ.pending then
        some ({ σ with pending := [], used := moveAll σ.pending σ.used, promise := fulfil σ.promise σ.pending v },
              .unit, σ.pending.map (fun e => (e.2, v)))
      else none
  | .isRec k => some (σ, .bool ((lookup k σ.pending).isSome || (lookup k σ.used).isSome), [])
  | .isComp k => some (σ, .bool (lookup k σ.used).isSome, [])
  | .fin k => some ({ σ with used := erase k σ.used }, .unit, [])
  | .dtor =>
      if allUnset σ.promise σ.pending then
        some ({ σ with pending := [], used := [], promise := fulfil σ.promise σ.pending 0, dead := true },
              .unit, σ.pending.map (fun e => (e.2, 0)))
      else none

/-- nothing may be called on a destroyed container -/
def Seq.apply (σ : Seq) (o : Op) : Option (Seq × Res × List (Id × Val)) :=
  if σ.dead then none else σ.app o

structure HEntry where
  t : Tid
  op : Op
  res : Res
  deriving DecidableEq, Repr

/-- replay a history sequentially; `none` if an operation is undefined or a recorded result differs -/
def Seq.run (σ : Seq) : List HEntry → Option Seq
  | [] => some σ
  | e :: es =>
      match σ.apply e.op with
      | some (σ', r, _) => if r = e.res then Seq.run σ' es else none
      | none => none

/-! ### concurrent layer -/

inductive Pc
  | idle
  | called (o : Op)                              -- inside the method, before `mlk`
  | locked (o : Op) (r : Res) (todo : List Val)  -- holds promiseLock; `todo` = set_value calls still to come
  | unlocked (o : Op) (r : Res)                  -- after `mul`, before `ret`
  deriving DecidableEq, Repr

inductive Ev
  | call (o : Op)
  | mlk
  | pset (v : Val)          -- a value is constructed into a promise (`set_value`)
  | acc                     -- plain access to one of the four map objects
  | mul
  | ret (o : Op) (r : Res)
  | got (p : Id) (x : PState)   -- a consumer found future `p` ready with value / broken_promise
  deriving DecidableEq, Repr

structure St where
  seq : Seq
  lock : Option Tid
  next : Id                  -- promises created so far (`std::promise<X>()` in getFuture, before the lock)
  active : List Tid          -- ghost: threads inside a call
  closer : Option Tid        -- the thread that runs the destructor
  hist : List HEntry         -- ghost: operations in linearisation order
  sets : List (Id × Val)     -- ghost: every `set_value` call made so far
  pc : Tid → Pc

def init : St :=
  { seq := Seq.init, lock := none, next := 0, active := [], closer := none, hist := [], sets := [],
    pc := fun _ => .idle }

def St.setPc (s : St) (t : Tid) (p : Pc) : St := { s with pc := upd s.pc t p }

/-- client obligations at a call: a fresh promise name for `getFuture`; the destructor runs alone -/
def callOk (s : St) : Op → Bool
  | .get _ p => p = s.next
  | .dtor => s.active = []
  | _ => true

def nextAfter (n : Id) : Op → Id
  | .get _ _ => n + 1
  | _ => n

def step (s : St) (t : Tid) (e : Ev) : Option St :=
  match s.pc t, e with
  | .idle, .call o =>
      if s.closer = none ∧ callOk s o = true then
        some ({ s with next := nextAfter s.next o, active := t :: s.active,
                       closer := if o = Op.dtor then some t else s.closer }.setPc t (.called o))
      else none
  | .called o, .mlk =>
      if s.lock = none then
        match s.seq.apply o with
        | some (σ, r, l) =>
            some ({ s with seq := σ, lock := some t, hist := s.hist ++ [HEntry.mk t o r], sets := s.sets ++ l }.setPc t
                    (.locked o r (l.map Prod.snd)))
        | none => none
      else none
  | .locked o r todo, .pset v =>
      if v ∈ todo then some (s.setPc t (.locked o r (todo.erase v))) else none
  | .locked _ _ _, .acc => some s
  | .locked o r todo, .mul =>
      if todo = [] ∧ s.lock = some t then some ({ s with lock := none }.setPc t (.unlocked o r)) else none
  | .unlocked o _, .acc => if o = Op.dtor then some s else none
  | .unlocked o r, .ret o' r' =>
      if o' = o ∧ r' = r then some ({ s with active := s.active.erase t }.setPc t .idle) else none
  | .idle, .got p x => if x ≠ .unset ∧ s.seq.promise p = x then some s else none
  | _, _ => none

def run (es : List (Tid × Ev)) : Option St := runFrom step init es

def Reachable (s : St) : Prop := ∃ es, run es = some s

end ConcVerif.DObj
