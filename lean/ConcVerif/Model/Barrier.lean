import ConcVerif.Base.TS
/-! Model of `gmlc::concurrency::Barrier` (Barrier.hpp) at the level of the primitive operations the
real code executes: the mutex, the condition variable, and the three PLAIN fields
`threshold_ count_ generation_` (observed through the plain-access tap).

Thread-local discipline, the same for `wait` (k = wait) and `wait_and_drop` (k = drop):

    call k ; mlk ; plain* ;
      either  cna ; plain* ; mul(obs)                         -- last arriver: `--count_ == 0`
      or      cwt(obs) ; { cwk ; plain* ; cwt(obs) }* ; cwk ; plain* ; mul(obs)
    ret k

* The LOGICAL effect of a critical section is applied at the primitive event that ends its decisive
  part: at `cna` for the last arriver (arrival counted, generation bumped, count reset, threshold
  lowered for a drop, wait set emptied) and at the first `cwt` for everybody else (arrival counted,
  threshold lowered for a drop, `lGen` := generation, mutex released, thread joins the wait set).
  Which of the two happens is decided by the model's `count` (`cna` iff `count = 1`, i.e.
  `--count_ <= 0` on a `size_t`; `count = 0` would wrap and is not modelled).
* After a wake-up the thread re-waits (`cwt`) iff `generation = lGen t` and leaves (`mul`) iff
  `generation ≠ lGen t` — the predicate of the real `cv.wait(lck, pred)`.
* Plain accesses (`pld`/`pst` of the three fields) are `plain` events: allowed only while the thread
  holds `mtx`; their number and order are NOT constrained (optimiser dependent).  Their VALUES are
  checked at every point where the mutex is released: `cwt` and `mul` carry the observation `obs` =
  the last value seen (loaded or stored) of each field, rebuilt by the driver from the `pld`/`pst`
  lines (`none` = the field has never been touched since construction, so it still has its
  constructor value); `step` requires the observation to equal the model's fields.

Ghost state: `parts` (current participants, initially the configured list `P`, a thread leaves it at
its `wait_and_drop` arrival), `pending` (participants that have not yet arrived in the current
generation), `arr t` (number of arrivals thread `t` has made).  Client obligations (a breach is a
client error, `none`): only current participants call; hence nobody over-arrives.
Any number of participants; spurious wake-ups are ordinary `cwk spurious` events. -/
namespace ConcVerif.Barrier

inductive Kind | wait | drop
  deriving DecidableEq, Repr

inductive Pc
  | idle
  | called (k : Kind)     -- inside wait / wait_and_drop, before `mlk`
  | locked (k : Kind)     -- holds mtx, arrival not yet counted
  | notified (k : Kind)   -- last arriver: released the generation (`notify_all` done), holds mtx, before `mul`
  | sleep (k : Kind)      -- inside `cv.wait` (mutex released; in the wait set unless notified)
  | woken (k : Kind)      -- back from `cv.wait`, holds mtx, before re-wait / `mul`
  | unlocked (k : Kind)   -- mutex released, before `ret`
  deriving DecidableEq, Repr

inductive Wake | notified | spurious
  deriving DecidableEq, Repr

/-- values of the three plain fields as last observed by the tap (`none` = never touched) -/
structure Obs where
  th : Option Nat
  cnt : Option Nat
  gen : Option Nat
  deriving DecidableEq, Repr

inductive Ev
  | call (k : Kind)
  | ret (k : Kind)
  | mlk
  | plain                 -- `pld`/`pst` of threshold_/count_/generation_
  | cna
  | cwt (o : Obs)
  | cwk (r : Wake)
  | mul (o : Obs)
  deriving DecidableEq, Repr

structure St where
  n0 : Nat                -- constructor argument
  threshold : Nat
  count : Nat
  generation : Nat
  mtx : Option Tid
  waiters : List Tid
  lGen : Tid → Nat        -- the local `lGen` of the thread's current call
  parts : List Tid        -- ghost: current participants
  pending : List Tid      -- ghost: participants that have not yet arrived in the current generation
  arr : Tid → Nat         -- ghost: arrivals made so far
  pc : Tid → Pc

/-- `P` = the participating threads (the constructor argument is their number) -/
def init (P : List Tid) : St :=
  { n0 := P.length, threshold := P.length, count := P.length, generation := 0, mtx := none, waiters := [],
    lGen := fun _ => 0, parts := P, pending := P, arr := fun _ => 0, pc := fun _ => .idle }

def St.setPc (s : St) (t : Tid) (p : Pc) : St := { s with pc := upd s.pc t p }

/-- an observed field value agrees with the model: an untouched field still has its constructor value -/
def obsEq (o : Option Nat) (ctor cur : Nat) : Bool :=
  match o with
  | none => ctor == cur
  | some v => v == cur

/-- the tap's view of the three fields equals the model's fields -/
def St.sees (s : St) (o : Obs) : Bool :=
  obsEq o.th s.n0 s.threshold && obsEq o.cnt s.n0 s.count && obsEq o.gen 0 s.generation

/-- the observation that `sees` accepts -/
def St.obs (s : St) : Obs := { th := some s.threshold, cnt := some s.count, gen := some s.generation }

/-- logical effect of an arrival that does NOT complete the generation (`--count_ > 0`), followed by
the entry into `cv.wait` -/
def St.arriveWait (s : St) (t : Tid) (k : Kind) : St :=
  { s with
    threshold := if k = .drop then s.threshold - 1 else s.threshold,
    count := s.count - 1,
    lGen := upd s.lGen t s.generation,
    mtx := none,
    waiters := t :: s.waiters,
    parts := if k = .drop then s.parts.erase t else s.parts,
    pending := s.pending.erase t,
    arr := upd s.arr t (s.arr t + 1) }

/-- logical effect of the arrival that completes the generation (`--count_ == 0`): bump the
generation, reset the count to the (possibly lowered) threshold, wake everybody -/
def St.arriveRelease (s : St) (t : Tid) (k : Kind) : St :=
  { s with
    threshold := if k = .drop then s.threshold - 1 else s.threshold,
    count := if k = .drop then s.threshold - 1 else s.threshold,
    generation := s.generation + 1,
    waiters := [],
    parts := if k = .drop then s.parts.erase t else s.parts,
    pending := if k = .drop then s.parts.erase t else s.parts,
    arr := upd s.arr t (s.arr t + 1) }

/-- executable step; `none` = the real code may not do this here -/
def step (s : St) (t : Tid) (e : Ev) : Option St :=
  match s.pc t, e with
  | .idle, .call k => if t ∈ s.parts then some (s.setPc t (.called k)) else none
  | .called k, .mlk => if s.mtx = none then some ({ s with mtx := some t }.setPc t (.locked k)) else none
  | .locked _, .plain => if s.mtx = some t then some s else none
  | .notified _, .plain => if s.mtx = some t then some s else none
  | .woken _, .plain => if s.mtx = some t then some s else none
  | .locked k, .cna =>
      if s.mtx = some t ∧ s.count = 1 then some ((s.arriveRelease t k).setPc t (.notified k)) else none
  | .locked k, .cwt o =>
      if s.mtx = some t ∧ 2 ≤ s.count ∧ (s.arriveWait t k).sees o = true then
        some ((s.arriveWait t k).setPc t (.sleep k)) else none
  | .notified k, .mul o =>
      if s.mtx = some t ∧ s.sees o = true then some ({ s with mtx := none }.setPc t (.unlocked k)) else none
  | .sleep k, .cwk r =>
      if s.mtx = none then
        match r with
        | .notified =>
            if t ∈ s.waiters then none else some ({ s with mtx := some t }.setPc t (.woken k))
        | .spurious =>
            if t ∈ s.waiters then
              some ({ s with mtx := some t, waiters := s.waiters.erase t }.setPc t (.woken k)) else none
      else none
  | .woken k, .cwt o =>
      if s.mtx = some t ∧ s.generation = s.lGen t ∧ s.sees o = true then
        some ({ s with mtx := none, waiters := t :: s.waiters }.setPc t (.sleep k)) else none
  | .woken k, .mul o =>
      if s.mtx = some t ∧ s.generation ≠ s.lGen t ∧ s.sees o = true then
        some ({ s with mtx := none }.setPc t (.unlocked k)) else none
  | .unlocked k, .ret k' => if k' = k then some (s.setPc t .idle) else none
  | _, _ => none

def run (P : List Tid) (es : List (Tid × Ev)) : Option St := runFrom step (init P) es

def Reachable (P : List Tid) (s : St) : Prop := ∃ es, run P es = some s

end ConcVerif.Barrier
