import ConcVerif.Base.TS
/-! Model of `gmlc::concurrency::TriggerVariable` (TriggerVariable.hpp) at the level of the primitive
operations the real code executes: two atomic flags (`triggered`, `activated`), two mutexes
(`triggerLock`, `activeLock`), two condition variables (`cv_trigger`, `cv_active`).

The two halves of the object are symmetric for the waiters, so the shared state is indexed by a
`Side`: `.trig` = (`triggered`, `triggerLock`, `cv_trigger`), `.act` = (`activated`, `activeLock`,
`cv_active`).

Thread-local discipline (what the proofs need), per public method:
* `activate`  : `ald activated` ; true ⇒ return false ; else `mlk triggerLock` ; `ast triggered 0` (the
  **clear** step) ; `mul triggerLock` ; `mlk activeLock` ; { `ast activated 1` (the **set-active** step) and
  `cna cv_active`, in either order } ; `mul activeLock` ; return true.
* `trigger`   : `ald activated` ; false ⇒ return false ; else `mlk triggerLock` ; { `ast triggered 1`
  (the **set-triggered** step) and `cna cv_trigger`, in either order } ; `mul triggerLock` ; return true.
* `wait` / `wait_for` : `ald activated` ; false ⇒ return true ; else the wait loop on the `.trig` side.
* `waitActivation` / `wait_forActivation` : the wait loop on the `.act` side.
* wait loop on side `m` : `mlk` ; then, holding the mutex: any number of flag loads; a load of `true` ends
  the loop (result true); `cwt` is allowed only after a load of `false` made since the mutex was last
  (re)acquired; `cwk notified|spurious` re-enters the loop; `cwk timeout` (timed forms only, thread still in
  the wait set) and `cwk late` (timed forms only, thread already notified but the wait reports a time-out)
  are followed by the deciding load whose value is the result; `mul` ; return.
* `reset` : `mlk activeLock` ; `ald activated` ; false ⇒ `mul` ; return.  Else loop { `ald triggered`
  (acquire or stronger) ; true ⇒ leave ; false ⇒ `mul activeLock` ; the body of `trigger` ; `mlk activeLock` } ;
  `ast activated 0` (the **set-inactive** step) ; `mul activeLock` ; return.
* `isActive` / `isTriggered` : one load.

Ghost state: `hist`, the history of clear / set-active / set-triggered / set-inactive steps (a step's index
is its position; the constructor counts as clear step 0, followed by set-active step 1 when the object is
constructed active); `lastClear` = index of the latest clear step; `actClear` = index of the clear step
of the activation whose set-active step wrote the latest `true` into `activated`; per thread `myClear t` =
index of the clear step of `t`'s activate() call in progress and `obs t` = the activation observed by `t`'s
wait() / wait_for() call in progress: the fast-path load that reads `activated = true` records `actClear`
there (`none` = the call saw the variable inactive, or is a waitActivation).

Any number of threads; spurious wake-ups and time-outs are ordinary events. -/
namespace ConcVerif.Trigger

inductive Side | trig | act
  deriving DecidableEq, Repr

inductive Kind | activate | trigger | wait | waitFor | waitAct | waitForAct | reset | isActive | isTriggered
  deriving DecidableEq, Repr

/-- the four waiting methods -/
inductive WKind | wait | waitFor | waitAct | waitForAct
  deriving DecidableEq, Repr

def WKind.toKind : WKind → Kind
  | .wait => .wait | .waitFor => .waitFor | .waitAct => .waitAct | .waitForAct => .waitForAct

def WKind.side : WKind → Side
  | .wait | .waitFor => .trig
  | .waitAct | .waitForAct => .act

def WKind.timed : WKind → Bool
  | .waitFor | .waitForAct => true
  | _ => false

/-- `trigger()` is called by clients (`top`) and from inside `reset()`'s loop (`inReset`) -/
inductive Ctx | top | inReset
  deriving DecidableEq, Repr

/-- memory order of a load, as far as the model cares -/
inductive Ord | acq | sc
  deriving DecidableEq, Repr

/-- `late`: the thread was notified, yet the timed wait reports a time-out (the deadline had passed when it
got the mutex back) -/
inductive Wake | notified | spurious | timeout | late
  deriving DecidableEq, Repr

/-- ghost history entries -/
inductive HEv
  | clear (t : Tid)
  | setActive (t : Tid)
  | setTrig (t : Tid)
  | setInactive (t : Tid)
  deriving DecidableEq, Repr

inductive Pc
  | idle
  -- activate
  | aCalled                       -- before the `activated` load
  | aLockT                        -- saw inactive, before `mlk triggerLock`
  | aClear                        -- holds triggerLock, before `triggered = false`
  | aUnlockT                      -- cleared, before `mul triggerLock`
  | aLockA                        -- before `mlk activeLock`
  | aHold (st nt : Bool)          -- holds activeLock; `st`: stored `activated = true`; `nt`: notified
  | aRet (r : Bool)
  -- trigger (also the nested call inside reset)
  | tCalled (x : Ctx)             -- before the `activated` load
  | tLock (x : Ctx)               -- saw active, before `mlk triggerLock`
  | tHold (x : Ctx) (st nt : Bool) -- holds triggerLock; `st`: stored `triggered = true`; `nt`: notified
  | tRet (r : Bool)
  -- the four waits
  | wCalled (k : WKind)           -- wait / wait_for: before the `activated` load
  | wLock (k : WKind)             -- before `mlk`
  | wHold (k : WKind) (f : Bool)  -- holds the mutex; `f`: loaded `false` since (re)acquiring it
  | wSleep (k : WKind)            -- inside the cv wait
  | wTimedOut (k : WKind)         -- timed out, holds the mutex, before the deciding load
  | wLate (k : WKind)             -- notified but reported as a time-out, holds the mutex, before the deciding load
  | wUnlock (k : WKind) (r : Bool) -- before `mul`, result `r`
  | wRet (k : WKind) (r : Bool)
  -- reset
  | rCalled                       -- before `mlk activeLock`
  | rLocked                       -- holds activeLock, before the `activated` load
  | rLoop                         -- holds activeLock, before the `triggered` load (acquire)
  | rRelease                      -- saw untriggered, before `mul activeLock`
  | rRelock                       -- nested trigger() done, before `mlk activeLock`
  | rStore                        -- saw triggered, before `activated = false`
  | rUnlock (st : Bool)           -- before `mul activeLock`; `st`: this call performed the set-inactive step
  | rRet
  -- isActive / isTriggered
  | oCalled (a : Side)
  | oRet (a : Side) (v : Bool)
  deriving DecidableEq, Repr

inductive Ev
  | call (k : Kind)
  | ret (k : Kind) (r : Bool)
  | mlk (m : Side)
  | mul (m : Side)
  | ld (a : Side) (o : Ord) (v : Bool)
  | st (a : Side) (v : Bool)      -- seq_cst store
  | cna (m : Side)
  | cwt (m : Side)
  | cwk (m : Side) (r : Wake)
  deriving DecidableEq, Repr

def updS {α : Type} (f : Side → α) (m : Side) (a : α) : Side → α := fun x => if x = m then a else f x

structure St where
  flag : Side → Bool            -- `.trig` ↦ triggered, `.act` ↦ activated
  lock : Side → Option Tid      -- `.trig` ↦ triggerLock, `.act` ↦ activeLock
  ws : Side → List Tid          -- wait sets of cv_trigger / cv_active
  hist : List HEv               -- ghost
  lastClear : Nat               -- ghost
  actClear : Nat                -- ghost
  myClear : Tid → Nat           -- ghost
  obs : Tid → Option Nat        -- ghost
  pc : Tid → Pc

/-- `TriggerVariable(active)` -/
def init (active : Bool) : St :=
  { flag := fun m => match m with | .trig => false | .act => active,
    lock := fun _ => none, ws := fun _ => [],
    hist := if active then [.clear 0, .setActive 0] else [.clear 0],
    lastClear := 0, actClear := 0, myClear := fun _ => 0, obs := fun _ => none, pc := fun _ => .idle }

def St.setPc (s : St) (t : Tid) (p : Pc) : St := { s with pc := upd s.pc t p }

/-- `mlk m` -/
def St.acquire (s : St) (m : Side) (t : Tid) (p : Pc) : Option St :=
  if s.lock m = none then some ({ s with lock := updS s.lock m (some t) }.setPc t p) else none

/-- `mul m` -/
def St.release (s : St) (m : Side) (t : Tid) (p : Pc) : Option St :=
  if s.lock m = some t then some ({ s with lock := updS s.lock m none }.setPc t p) else none

/-- where `trigger()` continues when it is done -/
def Ctx.after (x : Ctx) (r : Bool) : Pc :=
  match x with
  | .top => .tRet r
  | .inReset => .rRelock

def obsKind : Side → Kind
  | .act => .isActive
  | .trig => .isTriggered

/-- executable step; `none` = the real code may not do this here -/
def step (s : St) (t : Tid) (e : Ev) : Option St :=
  match s.pc t, e with
  | .idle, .call .activate => some (s.setPc t .aCalled)
  | .idle, .call .trigger => some (s.setPc t (.tCalled .top))
  | .idle, .call .wait => some ({ s with obs := upd s.obs t none }.setPc t (.wCalled .wait))
  | .idle, .call .waitFor => some ({ s with obs := upd s.obs t none }.setPc t (.wCalled .waitFor))
  | .idle, .call .waitAct => some ({ s with obs := upd s.obs t none }.setPc t (.wLock .waitAct))
  | .idle, .call .waitForAct => some ({ s with obs := upd s.obs t none }.setPc t (.wLock .waitForAct))
  | .idle, .call .reset => some (s.setPc t .rCalled)
  | .idle, .call .isActive => some (s.setPc t (.oCalled .act))
  | .idle, .call .isTriggered => some (s.setPc t (.oCalled .trig))
  -- activate
  | .aCalled, .ld .act .sc v =>
      if v = s.flag .act then some (s.setPc t (if v then .aRet false else .aLockT)) else none
  | .aLockT, .mlk .trig => s.acquire .trig t .aClear
  | .aClear, .st .trig false =>
      some ({ s with flag := updS s.flag .trig false, hist := s.hist ++ [HEv.clear t],
                     lastClear := s.hist.length, myClear := upd s.myClear t s.hist.length }.setPc t .aUnlockT)
  | .aUnlockT, .mul .trig => s.release .trig t .aLockA
  | .aLockA, .mlk .act => s.acquire .act t (.aHold false false)
  | .aHold false nt, .st .act true =>
      some ({ s with flag := updS s.flag .act true, hist := s.hist ++ [HEv.setActive t],
                     actClear := s.myClear t }.setPc t (.aHold true nt))
  | .aHold st false, .cna .act => some ({ s with ws := updS s.ws .act [] }.setPc t (.aHold st true))
  | .aHold true true, .mul .act => s.release .act t (.aRet true)
  | .aRet r, .ret .activate r' => if r' = r then some (s.setPc t .idle) else none
  -- trigger
  | .tCalled x, .ld .act .sc v =>
      if v = s.flag .act then some (s.setPc t (if v then .tLock x else x.after false)) else none
  | .tLock x, .mlk .trig => s.acquire .trig t (.tHold x false false)
  | .tHold x false nt, .st .trig true =>
      some ({ s with flag := updS s.flag .trig true, hist := s.hist ++ [HEv.setTrig t] }.setPc t (.tHold x true nt))
  | .tHold x st false, .cna .trig => some ({ s with ws := updS s.ws .trig [] }.setPc t (.tHold x st true))
  | .tHold x true true, .mul .trig => s.release .trig t (x.after true)
  | .tRet r, .ret .trigger r' => if r' = r then some (s.setPc t .idle) else none
  -- waits
  | .wCalled k, .ld .act .sc v =>
      if v = s.flag .act then
        some (if v then { s with obs := upd s.obs t (some s.actClear) }.setPc t (.wLock k)
              else { s with obs := upd s.obs t none }.setPc t (.wRet k true))
      else none
  | .wLock k, .mlk m => if m = k.side then s.acquire m t (.wHold k false) else none
  | .wHold k _, .ld a .sc v =>
      if a = k.side ∧ v = s.flag a then
        some (s.setPc t (if v then .wUnlock k true else .wHold k true)) else none
  | .wHold k true, .cwt m =>
      if m = k.side ∧ s.lock m = some t then
        some ({ s with lock := updS s.lock m none, ws := updS s.ws m (t :: s.ws m) }.setPc t (.wSleep k))
      else none
  | .wSleep k, .cwk m r =>
      if m = k.side ∧ s.lock m = none then
        match r with
        | .notified =>
            if t ∈ s.ws m then none
            else some ({ s with lock := updS s.lock m (some t) }.setPc t (.wHold k false))
        | .spurious =>
            if t ∈ s.ws m then
              some ({ s with lock := updS s.lock m (some t), ws := updS s.ws m ((s.ws m).erase t) }.setPc t
                (.wHold k false))
            else none
        | .timeout =>
            if t ∈ s.ws m ∧ k.timed = true then
              some ({ s with lock := updS s.lock m (some t), ws := updS s.ws m ((s.ws m).erase t) }.setPc t
                (.wTimedOut k))
            else none
        | .late =>
            if t ∉ s.ws m ∧ k.timed = true then
              some ({ s with lock := updS s.lock m (some t) }.setPc t (.wLate k))
            else none
      else none
  | .wTimedOut k, .ld a .sc v =>
      if a = k.side ∧ v = s.flag a then some (s.setPc t (.wUnlock k v)) else none
  | .wUnlock k r, .mul m => if m = k.side then s.release m t (.wRet k r) else none
  | .wRet k r, .ret k' r' => if k' = k.toKind ∧ r' = r then some (s.setPc t .idle) else none
  -- reset
  | .rCalled, .mlk .act => s.acquire .act t .rLocked
  | .rLocked, .ld .act .sc v =>
      if v = s.flag .act then some (s.setPc t (if v then .rLoop else .rUnlock false)) else none
  | .rLoop, .ld .trig _ v =>
      if v = s.flag .trig then some (s.setPc t (if v then .rStore else .rRelease)) else none
  | .rRelease, .mul .act => s.release .act t (.tCalled .inReset)
  | .rRelock, .mlk .act => s.acquire .act t .rLoop
  | .rStore, .st .act false =>
      some ({ s with flag := updS s.flag .act false, hist := s.hist ++ [HEv.setInactive t] }.setPc t (.rUnlock true))
  | .rUnlock _, .mul .act => s.release .act t .rRet
  | .rRet, .ret .reset true => some (s.setPc t .idle)
  -- isActive / isTriggered
  | .oCalled a, .ld a' .sc v => if a' = a ∧ v = s.flag a then some (s.setPc t (.oRet a v)) else none
  | .oRet a v, .ret k r => if k = obsKind a ∧ r = v then some (s.setPc t .idle) else none
  -- the deciding load after a late wake-up (kept last: the case numbering of the proofs follows this order)
  | .wLate k, .ld a .sc v =>
      if a = k.side ∧ v = s.flag a then some (s.setPc t (.wUnlock k v)) else none
  | _, _ => none

def run (active : Bool) (es : List (Tid × Ev)) : Option St := runFrom step (init active) es

def Reachable (active : Bool) (s : St) : Prop := ∃ es, run active es = some s

end ConcVerif.Trigger
