import ConcVerif.Base.TS
/-! Model of the lock-based wrappers (`guarded`, `guarded_opt`, `shared_guarded`, `shared_guarded_opt`,
`ordered_guarded`, `atomic_guarded` + `lock_handle` / `shared_lock_handle`, handles.hpp) as ONE
thread-local discipline over the primitive events of the wrapper's single mutex and the accesses to
the wrapped object.  It is deliberately the *weakest* discipline the proofs need (DESIGN §3.5,
stage B): it does not say which lock type a method uses or in which order it touches the payload,
only that

* the payload is read only while the thread holds the mutex (shared or exclusive) and written only
  while it holds it exclusively,
* a handle is non-null exactly when its acquisition event succeeded, it releases what it owns exactly
  when it is destroyed / `unlock()`-ed / move-assigned over, and is null after `unlock()`,
* a whole-object operation (`load`, `store`, `=`, `operator T`, `modify`, `read`, `exchange`,
  `compare_exchange`) is one bracket of the mutex whose accesses amount to the register operation it
  claims, also when user code throws inside it,
* with locking disabled (`guarded_opt(false)`) acquisitions perform no lock operation at all.

The configuration (`enabled`, `capable` = the mutex type has a shared mode) comes from the trace's
`cfg` line.  Unbounded threads; each thread owns at most two handle slots (`a`, `b`). -/
namespace ConcVerif.LockFam

inductive Mode | none | S | X
  deriving DecidableEq, Repr

inductive Side | X | S
  deriving DecidableEq, Repr

def Side.mode : Side → Mode
  | .X => .X
  | .S => .S

inductive How | block | try_ | timed
  deriving DecidableEq, Repr

/-- whole-object operations with their arguments -/
inductive WOp
  | ld | cv | rd              -- load / operator T / read(functor)
  | st (v : Int) | as (v : Int)
  | md                        -- modify(functor): the client's functor increments
  | xc (v : Int)
  | ce (e d : Int)
  deriving DecidableEq, Repr

/-- result of a whole-object operation as reported by the client -/
inductive Res
  | unit
  | val (v : Int)
  | cas (ok : Bool) (expected : Int)
  deriving DecidableEq, Repr

structure Handle where
  live : Bool := false
  owns : Mode := .none
  nonnull : Bool := false
  husk : Bool := false        -- moved-from
  deriving DecidableEq, Repr

inductive Slot | a | b
  deriving DecidableEq, Repr

inductive HopK
  | destroy (i : Slot)
  | unlock (i : Slot)
  | movec (src dst : Slot)
  | movea (src dst : Slot)
  deriving DecidableEq, Repr

/-- the slot whose lock a handle operation releases (the target of a move-assignment) -/
def HopK.relSlot : HopK → Slot
  | .destroy i => i | .unlock i => i | .movec _ d => d | .movea _ d => d

inductive Pc
  | idle
  | sessCalled                               -- `call <acquisition op>` seen
  | acq (sd : Side) (how : How)              -- `acq` marker seen, before the lock event
  | acqd (ok : Bool) (m : Mode)              -- lock event seen, before `got`
  | sess                                     -- inside a handle session, between handle operations
  | hop (k : HopK) (pending : Bool)          -- inside a handle operation; a release is still expected
  | wCalled (w : WOp)                        -- `call <whole-object op>` seen, before its lock event
  | whole (w : WOp) (m : Mode) (seen wrote : Option Int) (thrown : Bool)
  | wDone (r : Res)                          -- bracket closed, before `ret`
  | wExc                                     -- bracket closed after a throw, before `exc`
  deriving DecidableEq, Repr

inductive Ev
  | callSess | callW (w : WOp)
  | acq (sd : Side) (how : How)
  | lk (sd : Side) (how : How) (ok : Bool)   -- mlk / mtl / mtf / slk / stl / stf
  | rel (sd : Side)                          -- mul / sul
  | got (i : Slot) (nonnull : Bool)
  | hbegin (k : HopK)
  | hend (nonnull : Option Bool)             -- `he` (after unlock it carries bool(handle))
  | rd (v : Int) | wr (v : Int)
  | uth
  | retSess | retW (r : Res) | exc
  | final (v : Int)                          -- main thread, after all threads joined
  deriving DecidableEq, Repr

structure Loc where
  pc : Pc := .idle
  ha : Handle := {}
  hb : Handle := {}

def Loc.get (l : Loc) : Slot → Handle
  | .a => l.ha
  | .b => l.hb

def Loc.set (l : Loc) (i : Slot) (h : Handle) : Loc :=
  match i with
  | .a => { l with ha := h }
  | .b => { l with hb := h }

/-- an entry of the register history: a completed whole-object operation or a write through a handle -/
structure HEntry where
  t : Tid
  op : WOp
  res : Res
  deriving DecidableEq, Repr

structure St where
  enabled : Bool
  capable : Bool
  excl : Option Tid
  shared : List Tid
  val : Int
  committed : Int                 -- ghost: value after the last linearised operation
  held : Tid → Mode               -- ghost: what each thread holds on the mutex
  acqs : Tid → Nat                -- ghost: successful acquisition events per thread
  rels : Tid → Nat                -- ghost: release events per thread
  hist : List HEntry              -- ghost: linearisation order of register operations
  loc : Tid → Loc

def init (enabled capable : Bool) : St :=
  { enabled := enabled, capable := capable, excl := none, shared := [], val := 0, committed := 0,
    held := fun _ => .none, acqs := fun _ => 0, rels := fun _ => 0, hist := [], loc := fun _ => {} }

def St.pc (s : St) (t : Tid) : Pc := (s.loc t).pc

def St.setLoc (s : St) (t : Tid) (l : Loc) : St := { s with loc := upd s.loc t l }

def St.setPc (s : St) (t : Tid) (p : Pc) : St := s.setLoc t { s.loc t with pc := p }

/-- global effect of a successful acquisition; `none` if the mutex does not allow it now -/
def St.acquire (s : St) (t : Tid) (sd : Side) : Option St :=
  if s.held t ≠ .none then none else
  match sd with
  | .X => if s.excl = none ∧ s.shared = [] then
            some { s with excl := some t, held := upd s.held t .X, acqs := upd s.acqs t (s.acqs t + 1) } else none
  | .S => if s.excl = none ∧ s.capable = true then
            some { s with shared := t :: s.shared, held := upd s.held t .S, acqs := upd s.acqs t (s.acqs t + 1) } else none

/-- global effect of a release; `none` if the thread does not hold that side -/
def St.release (s : St) (t : Tid) (sd : Side) : Option St :=
  match sd with
  | .X => if s.held t = .X ∧ s.excl = some t then
            some { s with excl := none, held := upd s.held t .none, rels := upd s.rels t (s.rels t + 1) } else none
  | .S => if s.held t = .S ∧ t ∈ s.shared then
            some { s with shared := s.shared.erase t, held := upd s.held t .none, rels := upd s.rels t (s.rels t + 1) } else none

/-- the side a session acquisition really uses: the shared API degrades to exclusive on a plain mutex -/
def effSide (capable : Bool) (sd : Side) : Side :=
  match sd with
  | .X => .X
  | .S => if capable then .S else .X

def modeSide : Mode → Option Side
  | .X => some .X
  | .S => some .S
  | .none => none

/-- register semantics a whole-object operation must amount to, given what it read (`seen`, before
any write) and wrote inside its bracket.  `none` = the observed accesses are not this operation. -/
def wResult (w : WOp) (seen wrote : Option Int) : Option Res :=
  match w, seen, wrote with
  | .ld, some v, none => some (.val v)
  | .cv, some v, none => some (.val v)
  | .rd, some v, none => some (.val v)
  | .st v, none, some v' => if v = v' then some .unit else none
  | .as v, none, some v' => if v = v' then some .unit else none
  | .md, some v, some v' => if v' = v + 1 then some .unit else none
  | .xc v, some old, some v' => if v = v' then some (.val old) else none
  | .ce e d, some cur, some v' => if cur = e ∧ v' = d then some (.cas true e) else none
  | .ce e _, some cur, none => if cur ≠ e then some (.cas false cur) else none
  | _, _, _ => none

def WOp.writes : WOp → Bool
  | .ld | .cv | .rd => false
  | _ => true

/-- executable step; `none` = the real code may not do this here -/
def step (s : St) (t : Tid) (e : Ev) : Option St :=
  let l := s.loc t
  match l.pc, e with
  -- ---- handle sessions ------------------------------------------------------------------
  | .idle, .callSess => some (s.setPc t .sessCalled)
  | .sessCalled, .acq sd how => some (s.setPc t (.acq sd how))
  | .acq sd how, .lk sd' how' ok =>
      if s.enabled = true ∧ how' = how ∧ sd' = effSide s.capable sd then
        if ok then (s.acquire t sd').map (fun s1 => s1.setPc t (.acqd true sd'.mode))
        else if how = .block then none else some (s.setPc t (.acqd false .none))
      else none
  | .acq _ _, .got i nn =>
      -- locking disabled: no lock operation at all, a usable handle at once
      if s.enabled = false ∧ i = .a ∧ nn = true ∧ l.ha.live = false then
        some (s.setLoc t { l with pc := .sess, ha := { live := true, owns := .none, nonnull := true } })
      else none
  | .acqd ok m, .got i nn =>
      if i = .a ∧ nn = ok ∧ l.ha.live = false then
        some (s.setLoc t { l with pc := .sess, ha := { live := true, owns := m, nonnull := ok } })
      else none
  | .sess, .rd v =>
      if s.enabled = true then (if s.held t ≠ .none ∧ v = s.val then some s else none) else some s
  | .sess, .wr v =>
      if s.enabled = true then
        (if s.held t = .X then
          some { s with val := v, committed := v, hist := s.hist ++ [({ t := t, op := .st v, res := .unit } : HEntry)] } else none)
      else some { s with val := v }
  | .sess, .hbegin k =>
      match k with
      | .destroy i => if (l.get i).live then some (s.setPc t (.hop k ((l.get i).owns ≠ .none))) else none
      | .unlock i => if (l.get i).live then some (s.setPc t (.hop k ((l.get i).owns ≠ .none))) else none
      | .movec src dst =>
          if (l.get src).live ∧ ¬ (l.get dst).live ∧ src ≠ dst then some (s.setPc t (.hop k false)) else none
      | .movea src dst =>
          if (l.get src).live ∧ (l.get dst).live ∧ src ≠ dst then
            some (s.setPc t (.hop k ((l.get dst).owns ≠ .none))) else none
  | .hop k true, .rel sd =>
      let i := k.relSlot
      if modeSide (l.get i).owns = some sd then
        (s.release t sd).map (fun s1 =>
          s1.setLoc t ({ l with pc := .hop k false }.set i { l.get i with owns := .none }))
      else none
  | .hop k false, .hend r =>
      match k with
      | .destroy i => if r = none then some (s.setLoc t ({ l with pc := .sess }.set i {})) else none
      | .unlock i =>
          -- after unlock() the handle is null
          if r = some false then
            some (s.setLoc t ({ l with pc := .sess }.set i { l.get i with owns := .none, nonnull := false })) else none
      | .movec src dst =>
          if r = none then
            some (s.setLoc t ((({ l with pc := .sess }.set dst (l.get src)).set src
              { l.get src with owns := .none, husk := true }))) else none
      | .movea src dst =>
          if r = none then
            some (s.setLoc t ((({ l with pc := .sess }.set dst (l.get src)).set src
              { l.get src with owns := .none, husk := true }))) else none
  | .sess, .retSess => if l.ha.live = false ∧ l.hb.live = false then some (s.setPc t .idle) else none
  -- ---- whole-object operations --------------------------------------------------------------
  | .idle, .callW w => some (s.setPc t (.wCalled w))
  | .wCalled w, .lk sd how ok =>
      if how = .block ∧ ok = true then
        (s.acquire t sd).map (fun s1 => s1.setPc t (.whole w sd.mode none none false))
      else none
  | .whole w m _ wrote thrown, .rd v =>
      if wrote = none ∧ (s.enabled = true → v = s.val) then some (s.setPc t (.whole w m (some v) wrote thrown)) else none
  | .whole w m seen wrote thrown, .wr v =>
      if m = .X ∧ wrote = none then some ({ s with val := v }.setPc t (.whole w m seen (some v) thrown)) else none
  | .whole w m seen wrote _, .uth => some (s.setPc t (.whole w m seen wrote true))
  | .whole w m seen wrote thrown, .rel sd =>
      if modeSide m = some sd then
        if thrown then
          (if wrote = none then (s.release t sd).map (fun s1 => s1.setPc t .wExc) else none)
        else if s.enabled = true then
          match wResult w seen wrote with
          | some r =>
              (s.release t sd).map (fun (s1 : St) =>
                { s1 with committed := s1.val, hist := s1.hist ++ [({ t := t, op := w, res := r } : HEntry)] }.setPc t (.wDone r))
          | none => none
        else
          -- locking disabled: handle sessions may race with whole-object operations by the user's choice;
          -- only the bracket discipline is checked, results are whatever the client reports
          (s.release t sd).map (fun s1 => s1.setPc t (.wDone .unit))
      else none
  | .wDone r, .retW r' => if s.enabled = false ∨ r' = r then some (s.setPc t .idle) else none
  | .wExc, .exc => some (s.setPc t .idle)
  -- ---- end of run ------------------------------------------------------------------------------
  | .idle, .final v => if s.enabled = true → v = s.val then some s else none
  -- user code run by the CALL itself (building a by-value parameter from an lvalue) throws before any lock operation
  | .wCalled _, .uth => some (s.setPc t .wExc)
  | _, _ => none

def run (enabled capable : Bool) (es : List (Tid × Ev)) : Option St := runFrom step (init enabled capable) es

def Reachable (enabled capable : Bool) (s : St) : Prop := ∃ es, run enabled capable es = some s

end ConcVerif.LockFam
