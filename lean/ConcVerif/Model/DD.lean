import ConcVerif.Base.TS
/-! Model of `gmlc::concurrency::DelayedDestructor<X>` (DelayedDestructor.hpp) at the level of the operations on
`destructionLock` (a `std::timed_mutex`), the client-visible life-cycle events of the payload objects and the
callback invocations.

Shared state: the lock, the vector `ElementsToBeDestroyed` (`vec`, a list of object ids *with multiplicity*), and the
reference ledger of every payload object: `ext k` external `shared_ptr` copies (held by client code, including the
by-value parameter of a running `addObjectsToBeDestroyed`), the occurrences of `k` in `vec`, and the occurrences of
`k` in the local `ecall` vectors of running `destroyObjects` calls (`ecs`, one global list of `(thread, object)`
pairs; a thread's own entries, in list order, are its `ecall` vectors, innermost call first).
`std::shared_ptr` is trusted: an object's destructor starts exactly when the last of these references goes away.

Every thread has a *stack* of frames (`stk`): user code inside a callback or inside a payload destructor may call
back into the same container, which pushes further frames.  Code that runs between two events of a thread without a
scheduling point (the scan / `remove_if` / `erase` under the lock, the release loop of `ecall.clear()`, loop tests) is
executed by the model together with the preceding event of that thread. -/
namespace ConcVerif.DD

abbrev ObjId := Nat

inductive Frame
  -- addObjectsToBeDestroyed(obj)      (mv: the caller moved its reference in)
  | addCalled (k : ObjId) (mv : Bool)     -- before `lock_guard` acquires
  | addLocked (mv : Bool)                 -- pushed back; before the release
  | addRet (mv : Bool)
  -- size()
  | sizeCalled
  | sizeLocked
  | sizeRet (n : Nat)
  -- destroyObjects()          (int: called internally by destroyObjects(delay) / the destructor: no call/ret markers)
  | dCalled (int : Bool)                  -- before the first `try_lock_for`
  | dUnlock0 (int : Bool)                 -- lock held, nothing selected; before the release; returns `vec.size()`
  | dUnlock1 (int : Bool) (sz : Nat) (sel : List ObjId)  -- lock held, `sel` moved to `ecall`; before `lock.unlock()`
  | dCb (int : Bool) (sz : Nat) (n : Nat) (todo : List ObjId)  -- outside the lock; callbacks still to run (n = ecall.size())
  | dInCb (int : Bool) (sz : Nat) (n : Nat) (k : ObjId) (todo : List ObjId)  -- inside the callback for `k` (user code)
  | dClear (int : Bool) (sz : Nat) (n : Nat) (thrown : Bool)  -- `ecall` is being destroyed, `n` entries left
  | dRelock (int : Bool) (sz : Nat)       -- before the second `try_lock_for`
  | dUnlock2 (int : Bool)                 -- lock held again; before the release; returns `vec.size()`
  | dRet (r : Option Nat)                 -- before `ret destroy r`   (`none` = `size_t(-1)`)
  -- payload destructor
  | dying (k : ObjId)                     -- last reference gone; before `pdt k`
  | inDt (k : ObjId)                      -- inside `~X` of `k` (user code)
  -- destroyObjects(delay)     (dc = delayCount, cnt, es = elementSize)
  | gCalled (dc : Nat)
  | gUnlockS (dc cnt es : Nat)            -- lock held; before `lock.unlock()` in front of the sleep
  | gSleep (dc cnt es : Nat)
  | gRelockS (dc cnt es : Nat)
  | gUnlockD (dc cnt es : Nat)            -- lock held; before `lock.unlock()` in front of the inner destroyObjects()
  | gInner (dc cnt es : Nat)              -- inner destroyObjects() running (frame above)
  | gRelockD (dc cnt es : Nat)
  | gUnlockE                              -- lock held; loop left; returns `vec.size()`
  | gRet (r : Option Nat)
  -- ~DelayedDestructor
  | xInner (ii : Nat)                     -- destroyObjects() of iteration `ii` running (frame above)
  | xYield (ii : Nat)
  | xSleep (ii : Nat)
  | xInnerLast                            -- the extra destroyObjects() after `ii > 4`
  | xVec                                  -- body left: the vector member releases what is still in it
  | xRet
  deriving DecidableEq, Repr

inductive Ev
  | new (k : ObjId) | dup (k : ObjId) | drop (k : ObjId)
  | callAdd (k : ObjId) (mv : Bool) | callSize | callDestroy | callDestroyD (ms : Nat) | callDtor
  | retAdd (mv : Bool) | retSize (n : Nat) | retDestroy (r : Option Nat) | retDestroyD (r : Option Nat) | retDtor
  | mlk | mul
  /-- `try_lock_for` outcome.  `skip`: objects the scan that follows a successful first acquisition does not select
  although they are selectable (a scan racing with the last external owner; always `[]` in harness traces) -/
  | mtf (ok : Bool) (skip : List ObjId)
  | ucb (k : ObjId) | uce (k : ObjId) | uth (k : ObjId)
  | pdt (k : ObjId) | pde (k : ObjId)
  | yld | slp
  deriving DecidableEq, Repr

structure St where
  hasCb : Bool
  lock : Option Tid
  vec : List ObjId
  ecs : List (Tid × ObjId)
  ext : ObjId → Nat
  stk : Tid → List Frame
  nfr : Nat                    -- total number of frames of all threads (0 = nobody is inside a call)
  dead : Bool                  -- the container's destructor has started
  vdead : Bool                 -- the vector member is being / has been destroyed
  created : List ObjId         -- ghost: objects ever created
  destroyed : List ObjId       -- ghost: log of destructor starts (`pdt`)
  reaped : List ObjId          -- ghost: log of selections by destroyObjects
  cbRuns : List ObjId          -- ghost: log of callbacks that returned normally
  cbThrown : List ObjId        -- ghost: log of callbacks that threw

/-- `nshared` objects exist at the start, each script thread (`nthreads ≥ 1` of them) holds one reference to each -/
def init (hasCb : Bool) (nshared nthreads : Nat) : St :=
  { hasCb := hasCb, lock := none, vec := [], ecs := [],
    ext := fun k => if k < nshared then nthreads else 0,
    stk := fun _ => [], nfr := 0, dead := false, vdead := false,
    created := if nthreads = 0 then [] else List.range nshared, destroyed := [], reaped := [], cbRuns := [], cbThrown := [] }

/-- `use_count()` of object `k`: external copies + occurrences in the vector + occurrences in `ecall` vectors -/
def refs (s : St) (k : ObjId) : Nat := s.ext k + s.vec.count k + (s.ecs.map Prod.snd).count k

/-- what the scan of `destroyObjects` may select: only the vector owns the object (`use_count() == 1`) -/
def selectable (s : St) (k : ObjId) : Bool := refs s k == 1

def St.setStk (s : St) (t : Tid) (fs : List Frame) : St :=
  { s with stk := upd s.stk t fs, nfr := s.nfr + fs.length - (s.stk t).length }

/-- remove thread `t`'s first `ecall` entry -/
def popT (t : Tid) : List (Tid × ObjId) → Option (ObjId × List (Tid × ObjId))
  | [] => none
  | (u, k) :: r =>
      if u = t then some (k, r) else
      match popT t r with
      | none => none
      | some (k', r') => some (k', (u, k) :: r')

/-- user code runs (script level, inside a callback, inside a payload destructor): markers and calls are allowed -/
def userLevel : List Frame → Bool
  | [] => true
  | .dInCb _ _ _ _ _ :: _ => true
  | .inDt _ :: _ => true
  | _ => false

/-- a new API call may start here -/
def St.mayCall (s : St) (t : Tid) : Bool := userLevel (s.stk t) && !s.vdead && (!s.dead || (s.stk t) ≠ [])

/-- the vector member's destructor: release the remaining elements front to back; stops at the first object whose
last reference this is (its destructor runs next) -/
def vdrain (s : St) (t : Tid) (rest : List Frame) : List ObjId → St
  | [] => { s with vec := [] }.setStk t (.xRet :: rest)
  | k :: v =>
      let s1 := { s with vec := v }
      if refs s1 k = 0 then s1.setStk t (.dying k :: .xVec :: rest) else vdrain s1 t rest v

/-- loop test at the top of the destructor's `while (!ElementsToBeDestroyed.empty())` with counter `ii` -/
def xTop (s : St) (t : Tid) (ii : Nat) (rest : List Frame) : St :=
  if s.vec = [] then { s with vdead := true }.setStk t (.xRet :: rest)
  else s.setStk t (.dCalled true :: .xInner (ii + 1) :: rest)

/-- the destroyObjects() of iteration `ii` has returned -/
def xAfter (s : St) (t : Tid) (ii : Nat) (rest : List Frame) : St :=
  if s.vec = [] then { s with vdead := true }.setStk t (.xRet :: rest)
  else if ii > 4 then s.setStk t (.dCalled true :: .xInnerLast :: rest)
  else if ii % 2 = 0 then s.setStk t (.xSleep ii :: rest)
  else s.setStk t (.xYield ii :: rest)

/-- destroyObjects() finishes with result `r`; `rest` = the frames below it -/
def dDone (s : St) (t : Tid) (int : Bool) (r : Option Nat) (rest : List Frame) : Option St :=
  if int then
    match rest with
    | .gInner dc cnt es :: rest' => some (s.setStk t (.gRelockD dc cnt es :: rest'))
    | .xInner ii :: rest' => some (xAfter s t ii rest')
    | .xInnerLast :: rest' => some (vdrain { s with vdead := true } t rest' s.vec)
    | _ => none
  else some (s.setStk t (.dRet r :: rest))

/-- `ecall.clear()` / unwinding of `ecall`: release this call's `n` remaining entries front to back; stops at the first
object whose last reference this is.  When nothing is left the call goes on to the second `try_lock_for`, or, after
a throw, returns `sz` through the `catch (...)` -/
def drain (s : St) (t : Tid) (int : Bool) (sz : Nat) (thrown : Bool) (rest : List Frame) : Nat → Option St
  | 0 => if thrown then dDone s t int (some sz) rest else some (s.setStk t (.dRelock int sz :: rest))
  | n + 1 =>
      match popT t s.ecs with
      | none => none
      | some (k, ecs') =>
          let s1 := { s with ecs := ecs' }
          if refs s1 k = 0 then some (s1.setStk t (.dying k :: .dClear int sz n thrown :: rest))
          else drain s1 t int sz thrown rest n

/-- a frame has been popped (a payload destructor returned): release loops below it go on -/
def resume (s : St) (t : Tid) : List Frame → Option St
  | .dClear int sz n thrown :: rest => drain s t int sz thrown rest n
  | .xVec :: rest => some (vdrain s t rest s.vec)
  | fs => some (s.setStk t fs)

/-- loop of destroyObjects(delay), evaluated under the lock: `len = vec.size()` -/
def gBody (len dc cnt : Nat) : Frame := if len > 0 then .gUnlockD dc (cnt + 1) len else .gUnlockE
def gNext (len dc cnt es : Nat) : Frame :=
  if es > 0 ∧ cnt < dc then (if cnt > 0 then .gUnlockS dc cnt es else gBody len dc cnt) else .gUnlockE

def inCbOf (k : ObjId) : List Frame → Bool
  | .dInCb _ _ _ k' _ :: _ => k' = k
  | _ => false

/-- the scan + `remove_if` + `erase` of destroyObjects(), executed under the lock by thread `t` -/
def select (s : St) (t : Tid) (int : Bool) (skip : List ObjId) (rest : List Frame) : St :=
  let sel := s.vec.filter (fun k => selectable s k && !skip.contains k)
  if sel = [] then { s with lock := some t }.setStk t (.dUnlock0 int :: rest)
  else
    let vec' := s.vec.filter (fun k => !sel.contains k)
    { s with lock := some t, vec := vec', ecs := sel.map (fun k => (t, k)) ++ s.ecs, reaped := sel ++ s.reaped }.setStk t
      (.dUnlock1 int vec'.length sel :: rest)

/-- user-level markers and calls (the thread's stack is `fs`, with user code on top) -/
def stepUser (s : St) (t : Tid) (fs : List Frame) : Ev → Option St
  | .new k =>
      if k ∈ s.created then none
      else some { s with ext := fun j => if j = k then 1 else s.ext j, created := k :: s.created }
  | .dup k => if s.ext k > 0 then some { s with ext := fun j => if j = k then s.ext k + 1 else s.ext j } else none
  | .drop k =>
      if s.ext k > 0 then
        let s1 := { s with ext := fun j => if j = k then s.ext k - 1 else s.ext j }
        some (if refs s1 k = 0 then s1.setStk t (.dying k :: fs) else s1)
      else none
  | .callAdd k mv =>
      if !s.mayCall t then none
      else if mv then (if s.ext k > 0 then some (s.setStk t (.addCalled k true :: fs)) else none)
      else if s.ext k > 0 || inCbOf k fs then
        some ({ s with ext := fun j => if j = k then s.ext k + 1 else s.ext j }.setStk t (.addCalled k false :: fs))
      else none
  | .callSize => if s.mayCall t then some (s.setStk t (.sizeCalled :: fs)) else none
  | .callDestroy => if s.mayCall t then some (s.setStk t (.dCalled false :: fs)) else none
  | .callDestroyD ms =>
      if s.mayCall t then some (s.setStk t (.gCalled (if ms < 100 then 1 else ms / 50) :: fs)) else none
  | .callDtor =>
      if fs = [] ∧ s.nfr = 0 ∧ s.dead = false then some (xTop { s with dead := true } t 0 []) else none
  | _ => none

def unlock (s : St) : St := { s with lock := none }

/-- executable step; `none` = the real code (or a well-behaved client) does not do this here -/
def step (s : St) (t : Tid) (e : Ev) : Option St :=
  match s.stk t, e with
  | [], e => stepUser s t [] e
  -- addObjectsToBeDestroyed
  | .addCalled k mv :: rest, .mlk =>
      if s.lock = none ∧ s.ext k > 0 then
        some ({ s with lock := some t, vec := s.vec ++ [k],
                       ext := fun j => if j = k then s.ext k - 1 else s.ext j }.setStk t (.addLocked mv :: rest))
      else none
  | .addLocked mv :: rest, .mul =>
      if s.lock = some t then some ((unlock s).setStk t (.addRet mv :: rest)) else none
  | .addRet mv :: rest, .retAdd mv' => if mv = mv' then some (s.setStk t rest) else none
  -- size
  | .sizeCalled :: rest, .mlk =>
      if s.lock = none then some ({ s with lock := some t }.setStk t (.sizeLocked :: rest)) else none
  | .sizeLocked :: rest, .mul =>
      if s.lock = some t then some ((unlock s).setStk t (.sizeRet s.vec.length :: rest)) else none
  | .sizeRet n :: rest, .retSize n' => if n = n' then some (s.setStk t rest) else none
  -- destroyObjects()
  | .dCalled int :: rest, .mtf ok skip =>
      if ok then (if s.lock = none then some (select s t int skip rest) else none)
      else dDone s t int none rest
  | .dUnlock0 int :: rest, .mul =>
      if s.lock = some t then dDone (unlock s) t int (some s.vec.length) rest else none
  | .dUnlock1 int sz sel :: rest, .mul =>
      if s.lock = some t then
        (if s.hasCb then some ((unlock s).setStk t (.dCb int sz sel.length sel :: rest))
         else drain (unlock s) t int sz false rest sel.length)
      else none
  | .dCb int sz n (k :: todo) :: rest, .ucb k' =>
      if k = k' then some (s.setStk t (.dInCb int sz n k todo :: rest)) else none
  | .dInCb int sz n k todo :: rest, .uce k' =>
      if k = k' then
        let s1 := { s with cbRuns := k :: s.cbRuns }
        (if todo = [] then drain s1 t int sz false rest n else some (s1.setStk t (.dCb int sz n todo :: rest)))
      else none
  | .dInCb int sz n k _ :: rest, .uth k' =>
      if k = k' then drain { s with cbThrown := k :: s.cbThrown } t int sz true rest n else none
  | .dInCb int sz n k todo :: rest, e => stepUser s t (.dInCb int sz n k todo :: rest) e
  | .dRelock int sz :: rest, .mtf ok _ =>
      if ok then (if s.lock = none then some ({ s with lock := some t }.setStk t (.dUnlock2 int :: rest)) else none)
      else dDone s t int (some sz) rest
  | .dUnlock2 int :: rest, .mul =>
      if s.lock = some t then dDone (unlock s) t int (some s.vec.length) rest else none
  | .dRet r :: rest, .retDestroy r' => if r = r' then some (s.setStk t rest) else none
  -- payload destructor
  | .dying k :: rest, .pdt k' =>
      if k = k' then some ({ s with destroyed := k :: s.destroyed }.setStk t (.inDt k :: rest)) else none
  | .inDt k :: rest, .pde k' => if k = k' then resume s t rest else none
  | .inDt k :: rest, e => stepUser s t (.inDt k :: rest) e
  -- destroyObjects(delay)
  | .gCalled dc :: rest, .mtf ok _ =>
      if ok then
        (if s.lock = none then
           some ({ s with lock := some t }.setStk t (gNext s.vec.length dc 0 s.vec.length :: rest)) else none)
      else some (s.setStk t (.gRet none :: rest))
  | .gUnlockS dc cnt es :: rest, .mul =>
      if s.lock = some t then some ((unlock s).setStk t (.gSleep dc cnt es :: rest)) else none
  | .gSleep dc cnt es :: rest, .slp => some (s.setStk t (.gRelockS dc cnt es :: rest))
  | .gRelockS dc cnt es :: rest, .mtf ok _ =>
      if ok then
        (if s.lock = none then some ({ s with lock := some t }.setStk t (gBody s.vec.length dc cnt :: rest)) else none)
      else some (s.setStk t (.gRet (some es) :: rest))
  | .gUnlockD dc cnt es :: rest, .mul =>
      if s.lock = some t then some ((unlock s).setStk t (.dCalled true :: .gInner dc cnt es :: rest)) else none
  | .gRelockD dc cnt es :: rest, .mtf ok _ =>
      if ok then
        (if s.lock = none then
           some ({ s with lock := some t }.setStk t (gNext s.vec.length dc cnt es :: rest)) else none)
      else some (s.setStk t (.gRet (some es) :: rest))
  | .gUnlockE :: rest, .mul =>
      if s.lock = some t then some ((unlock s).setStk t (.gRet (some s.vec.length) :: rest)) else none
  | .gRet r :: rest, .retDestroyD r' => if r = r' then some (s.setStk t rest) else none
  -- ~DelayedDestructor
  | .xYield ii :: rest, .yld => some (xTop s t ii rest)
  | .xSleep ii :: rest, .slp => some (xTop s t ii rest)
  | .xRet :: rest, .retDtor => some (s.setStk t rest)
  | _, _ => none

def run (hasCb : Bool) (nshared nthreads : Nat) (es : List (Tid × Ev)) : Option St :=
  runFrom step (init hasCb nshared nthreads) es

def Reachable (hasCb : Bool) (nshared nthreads : Nat) (s : St) : Prop := ∃ es, run hasCb nshared nthreads es = some s

end ConcVerif.DD
