import ConcVerif.Base.TS
/-! Model of `gmlc::concurrency::DelayedDestructor<X>` (DelayedDestructor.hpp) at the level of the operations on
`destructionLock` (a `std::timed_mutex`), the client-visible life-cycle events of the payload objects and the
callback invocations.

Shared state: the lock, the vector `ElementsToBeDestroyed` (`vec`, a list of object ids *with multiplicity*), and the
reference ledger of every payload object: `ext k` external `shared_ptr` copies (held by client code, including the
by-value parameter of a running `addObjectsToBeDestroyed`), the occurrences of `k` in `vec`, and the occurrences of
`k` in the local `ecall` vectors of running `destroyObjects` calls (`ecs`, one global list of `(thread, object)`
pairs used as a multiset; every `destroyObjects` frame also carries its own `ecall` vector).
`std::shared_ptr` is trusted: an object's destructor starts exactly when the last of these references goes away.

Every thread has a *stack* of frames (`stk`): user code inside a callback or inside a payload destructor may call
back into the same container, which pushes further frames.  Code that runs between two events of a thread without a
scheduling point (the scan / `remove_if` / `erase` under the lock, the release loop of `ecall.clear()`, loop tests) is
executed by the model together with the preceding event of that thread. -/
namespace ConcVerif.DD

abbrev ObjId := Nat

inductive Frame
  -- addObjectsToBeDestroyed(obj)      (mv: the caller moved its reference in)
  | addCalled (k : ObjId) (mv : Bool)     -- before `lock_guard` acquires
  | addLocked (mv : Bool)                 -- pushed back; before the release
  | addRet (mv : Bool)
  -- size()
  | sizeCalled
  | sizeLocked
  | sizeRet (n : Nat)
  -- destroyObjects()   (called by user code, or internally by destroyObjects(delay) / the destructor: then the frame
  -- below is `gInner` / `xInner` / `xInnerLast` and there are no call/ret markers).
  -- sz = elementSize after the erase, ec = the local vector `ecall`, cbs = callbacks this call has completed
  | dCalled                               -- before the first `try_lock_for`
  | dUnlock0                              -- lock held, nothing selected; before the release; returns `vec.size()`
  | dUnlock1 (sz : Nat) (ec : List ObjId) -- lock held, selection moved to `ecall`; before `lock.unlock()`
  | dCb (sz : Nat) (ec cbs todo : List ObjId)              -- outside the lock; callbacks still to run for `todo`
  | dInCb (sz : Nat) (ec cbs : List ObjId) (k : ObjId) (todo : List ObjId)  -- inside the callback for `k` (user code)
  | dClear (sz : Nat) (ec cbs : List ObjId) (thrown : Bool)  -- `ecall` is being destroyed, `ec` = entries left
  | dRelock (sz : Nat)                    -- before the second `try_lock_for`
  | dUnlock2                              -- lock held again; before the release; returns `vec.size()`
  | dRet (r : Option Nat)                 -- before `ret destroy r`   (`none` = `size_t(-1)`)
  -- payload destructor
  | dying (k : ObjId)                     -- last reference gone; before `pdt k`
  | inDt (k : ObjId)                      -- inside `~X` of `k` (user code)
  -- destroyObjects(delay)     (dc = delayCount, cnt, es = elementSize)
  | gCalled (dc : Nat)
  | gUnlockS (dc cnt es : Nat)            -- lock held; before `lock.unlock()` in front of the sleep
  | gSleep (dc cnt es : Nat)
  | gRelockS (dc cnt es : Nat)
  | gUnlockD (dc cnt es : Nat)            -- lock held; before `lock.unlock()` in front of the inner destroyObjects()
  | gInner (dc cnt es : Nat)              -- inner destroyObjects() running (frame above)
  | gRelockD (dc cnt es : Nat)
  | gUnlockE                              -- lock held; loop left; returns `vec.size()`
  | gRet (r : Option Nat)
  -- ~DelayedDestructor
  | xInner (ii : Nat)                     -- destroyObjects() of iteration `ii` running (frame above)
  | xYield (ii : Nat)
  | xSleep (ii : Nat)
  | xInnerLast                            -- the extra destroyObjects() after `ii > 4` running (frame above)
  | xVec                                  -- body left: the vector member releases what is still in it
  | xRet
  deriving DecidableEq, Repr

inductive Ev
  | new (k : ObjId) | dup (k : ObjId) | drop (k : ObjId)
  | callAdd (k : ObjId) (mv : Bool) | callSize | callDestroy | callDestroyD (ms : Nat) | callDtor
  | retAdd (mv : Bool) | retSize (n : Nat) | retDestroy (r : Option Nat) | retDestroyD (r : Option Nat) | retDtor
  | mlk | mul
  /-- `try_lock_for` outcome.  `skip`: objects the scan that follows a successful first acquisition does not select
  although they are selectable (a scan racing with the last external owner; always `[]` in harness traces) -/
  | mtf (ok : Bool) (skip : List ObjId)
  | ucb (k : ObjId) | uce (k : ObjId) | uth (k : ObjId)
  | pdt (k : ObjId) | pde (k : ObjId)
  | yld | slp
  deriving DecidableEq, Repr

structure St where
  hasCb : Bool
  lock : Option Tid
  vec : List ObjId
  ecs : List (Tid × ObjId)
  ext : ObjId → Nat
  stk : Tid → List Frame
  act : List Tid               -- threads whose stack is not empty
  dead : Option Tid            -- the thread that runs / ran the container's destructor
  vdead : Bool                 -- the vector member has been destroyed (the destructor's work is done)
  created : List ObjId         -- ghost: objects ever created
  pend : List ObjId            -- ghost: objects whose last reference is gone and whose destructor has not started
  destroyed : List ObjId       -- ghost: log of destructor starts (`pdt`)
  added : List ObjId           -- ghost: log of `push_back`s
  reaped : List ObjId          -- ghost: log of removals from the vector by destroyObjects
  vrel : List ObjId            -- ghost: log of elements released by the vector member's destructor

/-- `nshared` objects exist at the start, each script thread (`nthreads` of them) holds one reference to each -/
def init (hasCb : Bool) (nshared nthreads : Nat) : St :=
  { hasCb := hasCb, lock := none, vec := [], ecs := [],
    ext := fun k => if k < nshared then nthreads else 0,
    stk := fun _ => [], act := [], dead := none, vdead := false,
    created := if nthreads = 0 then [] else List.range nshared, pend := [], destroyed := [], added := [], reaped := [],
    vrel := [] }

/-- `use_count()` of object `k`: external copies + occurrences in the vector + occurrences in `ecall` vectors -/
def refs (s : St) (k : ObjId) : Nat := s.ext k + s.vec.count k + (s.ecs.map Prod.snd).count k

/-- what the scan of `destroyObjects` may select: only the vector owns the object (`use_count() == 1`) -/
def selectable (s : St) (k : ObjId) : Bool := refs s k == 1

def St.setStk (s : St) (t : Tid) (fs : List Frame) : St :=
  { s with stk := upd s.stk t fs,
           act := if fs = [] then s.act.filter (· ≠ t) else t :: s.act.filter (· ≠ t) }

/-- user code runs (script level, inside a callback, inside a payload destructor): markers and calls are allowed -/
def userLevel : List Frame → Bool
  | [] => true
  | .dInCb _ _ _ _ _ :: _ => true
  | .inDt _ :: _ => true
  | _ => false

def inCbOf (k : ObjId) : List Frame → Bool
  | .dInCb _ _ _ k' _ :: _ => k' = k
  | _ => false

/-- a new API call may start here (client obligation: none once the container's destructor has started) -/
def St.mayCall (s : St) (t : Tid) : Bool := userLevel (s.stk t) && !s.vdead && s.dead.isNone

/-- the vector member's destructor: release the remaining elements front to back; stops at the first object whose
last reference this is (its destructor runs next) -/
def vdrain (s : St) (t : Tid) (rest : List Frame) : List ObjId → St
  | [] => { s with vec := [], vdead := true }.setStk t (.xRet :: rest)
  | k :: v =>
      let s1 := { s with vec := v, vrel := k :: s.vrel }
      if refs s1 k = 0 then { s1 with pend := k :: s1.pend }.setStk t (.dying k :: .xVec :: rest)
      else vdrain s1 t rest v

/-- loop test at the top of the destructor's `while (!ElementsToBeDestroyed.empty())` with counter `ii` -/
def xTop (s : St) (t : Tid) (ii : Nat) (rest : List Frame) : St :=
  if s.vec = [] then { s with vdead := true }.setStk t (.xRet :: rest)
  else s.setStk t (.dCalled :: .xInner (ii + 1) :: rest)

/-- the destroyObjects() of iteration `ii` has returned -/
def xAfter (s : St) (t : Tid) (ii : Nat) (rest : List Frame) : St :=
  if s.vec = [] then { s with vdead := true }.setStk t (.xRet :: rest)
  else if ii > 4 then s.setStk t (.dCalled :: .xInnerLast :: rest)
  else if ii % 2 = 0 then s.setStk t (.xSleep ii :: rest)
  else s.setStk t (.xYield ii :: rest)

/-- destroyObjects() finishes with result `r`; `rest` = the frames below it: an internal caller goes on, a call from
user code waits for its `ret` marker -/
def dDone (s : St) (t : Tid) (r : Option Nat) (rest : List Frame) : St :=
  match rest with
  | .gInner dc cnt es :: rest' => s.setStk t (.gRelockD dc cnt es :: rest')
  | .xInner ii :: rest' => xAfter s t ii rest'
  | .xInnerLast :: rest' => vdrain s t rest' s.vec
  | _ => s.setStk t (.dRet r :: rest)

/-- `ecall.clear()` / unwinding of `ecall`: release this call's remaining entries front to back; stops at the first
object whose last reference this is.  When nothing is left the call goes on to the second `try_lock_for`, or, after
a throw, returns `sz` through the `catch (...)` -/
def drain (s : St) (t : Tid) (sz : Nat) (cbs : List ObjId) (thrown : Bool) (rest : List Frame) : List ObjId → St
  | [] => if thrown then dDone s t (some sz) rest else s.setStk t (.dRelock sz :: rest)
  | k :: ec =>
      let s1 := { s with ecs := s.ecs.erase (t, k) }
      if refs s1 k = 0 then { s1 with pend := k :: s1.pend }.setStk t (.dying k :: .dClear sz ec cbs thrown :: rest)
      else drain s1 t sz cbs thrown rest ec

/-- a frame has been popped (a payload destructor returned): release loops below it go on -/
def resume (s : St) (t : Tid) : List Frame → St
  | .dClear sz ec cbs thrown :: rest => drain s t sz cbs thrown rest ec
  | .xVec :: rest => vdrain s t rest s.vec
  | fs => s.setStk t fs

/-- loop of destroyObjects(delay), evaluated under the lock: `len = vec.size()` -/
def gBody (len dc cnt : Nat) : Frame := if len > 0 then .gUnlockD dc (cnt + 1) len else .gUnlockE
def gNext (len dc cnt es : Nat) : Frame :=
  if es > 0 ∧ cnt < dc then (if cnt > 0 then .gUnlockS dc cnt es else gBody len dc cnt) else .gUnlockE

/-- the scan + `remove_if` + `erase` of destroyObjects(), executed under the lock by thread `t` -/
def select (s : St) (t : Tid) (skip : List ObjId) (rest : List Frame) : St :=
  let sel := s.vec.filter (fun k => selectable s k && !skip.contains k)
  if sel = [] then { s with lock := some t }.setStk t (.dUnlock0 :: rest)
  else
    let vec' := s.vec.filter (fun k => !sel.contains k)
    { s with lock := some t, vec := vec', ecs := sel.map (fun k => (t, k)) ++ s.ecs, reaped := sel ++ s.reaped }.setStk t
      (.dUnlock1 vec'.length sel :: rest)

def St.decExt (s : St) (k : ObjId) : St := { s with ext := fun j => if j = k then s.ext k - 1 else s.ext j }

/-- user-level markers and calls (the thread's stack is `fs`, with user code on top) -/
def stepUser (s : St) (t : Tid) (fs : List Frame) : Ev → Option St
  | .new k =>
      if k ∈ s.created then none
      else some { s with ext := fun j => if j = k then 1 else s.ext j, created := k :: s.created }
  | .dup k => if s.ext k > 0 then some { s with ext := fun j => if j = k then s.ext k + 1 else s.ext j } else none
  | .drop k =>
      if s.ext k > 0 then
        (if refs (s.decExt k) k = 0 then
           some ({ s.decExt k with pend := k :: s.pend }.setStk t (.dying k :: fs))
         else some (s.decExt k))
      else none
  | .callAdd k mv =>
      if !s.mayCall t then none
      else if mv then (if s.ext k > 0 then some (s.setStk t (.addCalled k true :: fs)) else none)
      else if s.ext k > 0 || inCbOf k fs then
        some ({ s with ext := fun j => if j = k then s.ext k + 1 else s.ext j }.setStk t (.addCalled k false :: fs))
      else none
  | .callSize => if s.mayCall t then some (s.setStk t (.sizeCalled :: fs)) else none
  | .callDestroy => if s.mayCall t then some (s.setStk t (.dCalled :: fs)) else none
  | .callDestroyD ms =>
      if s.mayCall t then some (s.setStk t (.gCalled (if ms < 100 then 1 else ms / 50) :: fs)) else none
  | .callDtor =>
      if fs = [] ∧ s.act = [] ∧ s.dead = none then some (xTop { s with dead := some t } t 0 []) else none
  | _ => none

def unlock (s : St) : St := { s with lock := none }

/-- executable step; `none` = the real code (or a well-behaved client) does not do this here -/
def step (s : St) (t : Tid) (e : Ev) : Option St :=
  match s.stk t, e with
  | [], e => stepUser s t [] e
  -- addObjectsToBeDestroyed
  | .addCalled k mv :: rest, .mlk =>
      if s.lock = none ∧ s.ext k > 0 then
        some ({ s with lock := some t, vec := s.vec ++ [k], added := k :: s.added,
                       ext := fun j => if j = k then s.ext k - 1 else s.ext j }.setStk t (.addLocked mv :: rest))
      else none
  | .addLocked mv :: rest, .mul =>
      if s.lock = some t then some ((unlock s).setStk t (.addRet mv :: rest)) else none
  | .addRet mv :: rest, .retAdd mv' => if mv = mv' then some (s.setStk t rest) else none
  -- size
  | .sizeCalled :: rest, .mlk =>
      if s.lock = none then some ({ s with lock := some t }.setStk t (.sizeLocked :: rest)) else none
  | .sizeLocked :: rest, .mul =>
      if s.lock = some t then some ((unlock s).setStk t (.sizeRet s.vec.length :: rest)) else none
  | .sizeRet n :: rest, .retSize n' => if n = n' then some (s.setStk t rest) else none
  -- destroyObjects()
  | .dCalled :: rest, .mtf ok skip =>
      if ok then (if s.lock = none then some (select s t skip rest) else none)
      else some (dDone s t none rest)
  | .dUnlock0 :: rest, .mul =>
      if s.lock = some t then some (dDone (unlock s) t (some s.vec.length) rest) else none
  | .dUnlock1 sz ec :: rest, .mul =>
      if s.lock = some t then
        (if s.hasCb then some ((unlock s).setStk t (.dCb sz ec [] ec :: rest))
         else some (drain (unlock s) t sz [] false rest ec))
      else none
  | .dCb sz ec cbs (k :: todo) :: rest, .ucb k' =>
      if k = k' then some (s.setStk t (.dInCb sz ec cbs k todo :: rest)) else none
  | .dInCb sz ec cbs k todo :: rest, .uce k' =>
      if k = k' then
        (if todo = [] then some (drain s t sz (cbs ++ [k]) false rest ec)
         else some (s.setStk t (.dCb sz ec (cbs ++ [k]) todo :: rest)))
      else none
  | .dInCb sz ec cbs k _ :: rest, .uth k' =>
      if k = k' then some (drain s t sz cbs true rest ec) else none
  | .dInCb sz ec cbs k todo :: rest, e => stepUser s t (.dInCb sz ec cbs k todo :: rest) e
  | .dRelock sz :: rest, .mtf ok _ =>
      if ok then (if s.lock = none then some ({ s with lock := some t }.setStk t (.dUnlock2 :: rest)) else none)
      else some (dDone s t (some sz) rest)
  | .dUnlock2 :: rest, .mul =>
      if s.lock = some t then some (dDone (unlock s) t (some s.vec.length) rest) else none
  | .dRet r :: rest, .retDestroy r' => if r = r' then some (s.setStk t rest) else none
  -- payload destructor
  | .dying k :: rest, .pdt k' =>
      if k = k' ∧ k ∈ s.pend then
        some ({ s with pend := s.pend.erase k, destroyed := k :: s.destroyed }.setStk t (.inDt k :: rest))
      else none
  | .inDt k :: rest, .pde k' => if k = k' then some (resume s t rest) else none
  | .inDt k :: rest, e => stepUser s t (.inDt k :: rest) e
  -- destroyObjects(delay)
  | .gCalled dc :: rest, .mtf ok _ =>
      if ok then
        (if s.lock = none then
           some ({ s with lock := some t }.setStk t (gNext s.vec.length dc 0 s.vec.length :: rest)) else none)
      else some (s.setStk t (.gRet none :: rest))
  | .gUnlockS dc cnt es :: rest, .mul =>
      if s.lock = some t then some ((unlock s).setStk t (.gSleep dc cnt es :: rest)) else none
  | .gSleep dc cnt es :: rest, .slp => some (s.setStk t (.gRelockS dc cnt es :: rest))
  | .gRelockS dc cnt es :: rest, .mtf ok _ =>
      if ok then
        (if s.lock = none then some ({ s with lock := some t }.setStk t (gBody s.vec.length dc cnt :: rest)) else none)
      else some (s.setStk t (.gRet (some es) :: rest))
  | .gUnlockD dc cnt es :: rest, .mul =>
      if s.lock = some t then some ((unlock s).setStk t (.dCalled :: .gInner dc cnt es :: rest)) else none
  | .gRelockD dc cnt es :: rest, .mtf ok _ =>
      if ok then
        (if s.lock = none then
           some ({ s with lock := some t }.setStk t (gNext s.vec.length dc cnt es :: rest)) else none)
      else some (s.setStk t (.gRet (some es) :: rest))
  | .gUnlockE :: rest, .mul =>
      if s.lock = some t then some ((unlock s).setStk t (.gRet (some s.vec.length) :: rest)) else none
  | .gRet r :: rest, .retDestroyD r' => if r = r' then some (s.setStk t rest) else none
  -- ~DelayedDestructor
  | .xYield ii :: rest, .yld => some (xTop s t ii rest)
  | .xSleep ii :: rest, .slp => some (xTop s t ii rest)
  | .xRet :: rest, .retDtor => some (s.setStk t rest)
  | _, _ => none

def run (hasCb : Bool) (nshared nthreads : Nat) (es : List (Tid × Ev)) : Option St :=
  runFrom step (init hasCb nshared nthreads) es

def Reachable (hasCb : Bool) (nshared nthreads : Nat) (s : St) : Prop := ∃ es, run hasCb nshared nthreads es = some s

end ConcVerif.DD
