import ConcVerif.Base.TS
/-! Model of `gmlc::libguarded::deferred_guarded<T, M>` (deferred_guarded.hpp) for a shared-capable
`M` (`std::shared_timed_mutex`, `std::shared_mutex`) at the level of the primitive operations the
real code executes: the shared mutex `m` (`m_mutex`), the atomic flag `m_pendingWrites`, the mutex
`qm` of the `guarded<std::vector<…>>` that holds the queue (`m_pendingList`), and the invocations of
the user functions (`ucb k` … `uce k r` / `uth k`, emitted by the functors themselves).

Per public method (the exact program of today's code):
* `modify_detach f` / `modify_async f` (task `k`): `mtl m`;
    ok  ⇒ `do_pending_writes_internal`; run `f` (`ucb k` … `uce k r` | `uth k`); `mul m`; return
          (a throw of `f` reaches the caller of `modify_detach`; `modify_async` captures it in the future);
    ¬ok ⇒ wrap `f`; `mlk qm`; push; `mul qm`; `ast flag true`; return.
* `do_pending_writes_internal` (caller holds `m` exclusively): `ald flag`; true ⇒ `ast flag false`;
    `mlk qm`; swap the queue out; `mul qm`; run the batch in order (each `ucb j` … `uce j r` | `uth j`,
    exceptions are captured by the `packaged_task`).
* `lock_shared`, `try_lock_shared`, `try_lock_shared_for/until`, `load`: `do_pending_writes` =
    `ald flag`; true ⇒ `mtl m`; ok ⇒ `do_pending_writes_internal`; `mul m`.  Then the shared acquisition
    (`slk m` / `stl m ok` / `stf m ok`); `load` copies the object under the shared lock and releases.

Ghost state: `applied` (tasks in the order their functions were entered), `batch` (the swapped-out
vector of the one thread that is draining; it is thread-local in the code, the model keeps one field
because only the exclusive holder of `m` can have one), `sub k` (submitting thread), `done` (tasks
whose submitting call has returned), `before k` (the tasks that had returned when `k` was submitted:
`a ∈ before b` ⇔ `ret a < call b` in real time, which includes the submitter's own earlier tasks),
`out k` (what the task's function produced: the content of its future).

`spur` is the model parameter "try_lock may fail although the mutex is free" (allowed by the
standard, not done by glibc nor by the harness).  Safety theorems hold for both values; the
no-stranding theorem needs `spur = false`. -/
namespace ConcVerif.Deferred

abbrev TaskId := Nat

inductive How | block | try_ | for_ | until_
  deriving DecidableEq, Repr

/-- what follows `do_pending_writes` in a reader-side method -/
inductive SCtx
  | acq (h : How)   -- lock_shared / try_lock_shared / _for / _until: the handle is returned
  | load            -- load(): copy under the shared lock, release
  deriving DecidableEq, Repr

/-- who called `do_pending_writes_internal` -/
inductive Ctx
  | mod (k : TaskId) (a : Bool)   -- modify_detach (a = false) / modify_async (a = true) of task k
  | sh (c : SCtx)
  deriving DecidableEq, Repr

inductive Outcome | val (r : Int) | exc
  deriving DecidableEq, Repr

inductive Pc
  | idle (h : Bool)                        -- at rest; h = the thread holds a (non-null) shared handle
  | mTry (k : TaskId) (a : Bool)           -- modify_*: before `mtl m`
  | qLock (k : TaskId) (a : Bool)          -- try-lock failed: before `mlk qm`
  | qPush (k : TaskId) (a : Bool)          -- holds qm: before `mul qm` (the push happens in this bracket)
  | qFlag (k : TaskId) (a : Bool)          -- pushed: before `ast flag true`
  | mRet (k : TaskId) (a : Bool) (thrown : Bool)  -- before `ret` / `exc`
  | sFlag (c : SCtx)                       -- do_pending_writes: before the unlocked `ald flag`
  | sTry (c : SCtx)                        -- saw true: before `mtl m`
  | dLoad (c : Ctx)                        -- holds m: before the `ald flag` of do_pending_writes_internal
  | dClear (c : Ctx)                       -- saw true: before `ast flag false`
  | dQLock (c : Ctx)                       -- cleared: before `mlk qm`
  | dSwap (c : Ctx)                        -- holds qm: before `mul qm` (the swap happens in this bracket)
  | dRun (c : Ctx)                         -- batch loop / what follows it
  | dIn (c : Ctx) (j : TaskId)             -- inside the function of queued task j
  | aIn (k : TaskId) (a : Bool)            -- inside the caller's own function (direct path)
  | mUnl (k : TaskId) (a : Bool) (thrown : Bool)  -- direct path: before `mul m`
  | sAcq (c : SCtx)                        -- before the shared acquisition
  | sGot (ok : Bool)                       -- before the client's `got` marker
  | ldHold (thrown : Bool)                 -- load(): holds the shared lock, copying
  | ldRet (thrown : Bool)                  -- load(): before `ret` / `exc`
  deriving DecidableEq, Repr

inductive Ev
  | callMod (k : TaskId) (a : Bool)
  | callSh (h : How)
  | callLoad
  | ret | exc
  | mtl (ok : Bool) | mul
  | slk | stl (ok : Bool) | stf (ok : Bool) | sul
  | fld (v : Bool)          -- `ald flag seq_cst v`
  | fst (v : Bool)          -- `ast flag seq_cst v`
  | qlk | qul
  | ucb (k : TaskId)        -- function of task k entered
  | uce (k : TaskId) (r : Int)   -- … returned r
  | uth (k : TaskId)        -- … threw
  | prd (v : Int) | pwr (v : Int)   -- the wrapped object read / written
  | got (ok : Bool)         -- truth value of the returned handle
  | fpoll (k : TaskId) (ready : Bool)   -- future of task k polled
  | fget (k : TaskId) (o : Outcome)     -- future of task k consumed
  deriving DecidableEq, Repr

structure St where
  spur : Bool
  mx : Option Tid
  sh : List Tid
  flag : Bool
  qm : Option Tid
  queue : List TaskId
  batch : List TaskId
  applied : List TaskId
  val : Int
  out : TaskId → Option Outcome
  sub : TaskId → Option Tid
  done : List TaskId
  before : TaskId → List TaskId
  pc : Tid → Pc

def init (spur : Bool) : St :=
  { spur := spur, mx := none, sh := [], flag := false, qm := none, queue := [], batch := [], applied := [],
    val := 0, out := fun _ => none, sub := fun _ => none, done := [], before := fun _ => [],
    pc := fun _ => .idle false }

def St.setPc (s : St) (t : Tid) (p : Pc) : St := { s with pc := upd s.pc t p }

/-- exclusive try-lock of `m`: succeeds only on a free mutex; fails only if somebody holds it,
unless spurious failures are allowed -/
def St.tryX (s : St) (ok : Bool) : Bool :=
  if ok then decide (s.mx = none ∧ s.sh = []) else (s.spur || decide (s.mx ≠ none) || decide (s.sh ≠ []))

/-- pc after the shared acquisition succeeded -/
def SCtx.granted : SCtx → Pc
  | .acq _ => .sGot true
  | .load => .ldHold false

/-- executable step; `none` = the real code may not do this here -/
def step (s : St) (t : Tid) (e : Ev) : Option St :=
  match s.pc t, e with
  -- calls (a thread that holds a handle calls nothing on the wrapper)
  | .idle false, .callMod k a =>
      if s.sub k = none then
        some ({ s with sub := upd s.sub k (some t), before := upd s.before k s.done }.setPc t (.mTry k a))
      else none
  | .idle false, .callSh h => some (s.setPc t (.sFlag (.acq h)))
  | .idle false, .callLoad => some (s.setPc t (.sFlag .load))
  -- a reader with a handle
  | .idle true, .prd v => if v = s.val then some s else none
  | .idle true, .sul => if t ∈ s.sh then some ({ s with sh := s.sh.erase t }.setPc t (.idle false)) else none
  -- futures (client side)
  | .idle _, .fpoll k r => if r = (s.out k).isSome then some s else none
  | .idle _, .fget k o => if s.out k = some o then some s else none
  -- modify_detach / modify_async
  | .mTry k a, .mtl ok =>
      if s.tryX ok then
        (if ok then some ({ s with mx := some t }.setPc t (.dLoad (.mod k a))) else some (s.setPc t (.qLock k a)))
      else none
  | .qLock k a, .qlk => if s.qm = none then some ({ s with qm := some t }.setPc t (.qPush k a)) else none
  | .qPush k a, .qul =>
      if s.qm = some t then some ({ s with qm := none, queue := s.queue ++ [k] }.setPc t (.qFlag k a)) else none
  | .qFlag k a, .fst v => if v = true then some ({ s with flag := true }.setPc t (.mRet k a false)) else none
  | .mRet k _ thrown, .ret => if thrown = false then some ({ s with done := k :: s.done }.setPc t (.idle false)) else none
  | .mRet k _ thrown, .exc => if thrown = true then some ({ s with done := k :: s.done }.setPc t (.idle false)) else none
  -- do_pending_writes (reader side)
  | .sFlag c, .fld v => if v = s.flag then some (s.setPc t (if v then .sTry c else .sAcq c)) else none
  | .sTry c, .mtl ok =>
      if s.tryX ok then
        (if ok then some ({ s with mx := some t }.setPc t (.dLoad (.sh c))) else some (s.setPc t (.sAcq c)))
      else none
  -- do_pending_writes_internal
  | .dLoad c, .fld v => if v = s.flag then some (s.setPc t (if v then .dClear c else .dRun c)) else none
  | .dClear c, .fst v => if v = false then some ({ s with flag := false }.setPc t (.dQLock c)) else none
  | .dQLock c, .qlk => if s.qm = none then some ({ s with qm := some t }.setPc t (.dSwap c)) else none
  | .dSwap c, .qul =>
      if s.qm = some t ∧ s.batch = [] then
        some ({ s with qm := none, batch := s.queue, queue := [] }.setPc t (.dRun c))
      else none
  | .dRun c, .ucb j =>
      match s.batch with
      | b :: rest =>
          if j = b then some ({ s with batch := rest, applied := s.applied ++ [j] }.setPc t (.dIn c j)) else none
      | [] =>
          match c with
          | .mod k a => if j = k then some ({ s with applied := s.applied ++ [k] }.setPc t (.aIn k a)) else none
          | .sh _ => none
  | .dRun (.sh c), .mul =>
      if s.batch = [] ∧ s.mx = some t then some ({ s with mx := none }.setPc t (.sAcq c)) else none
  | .dIn _ _, .prd v => if v = s.val then some s else none
  | .dIn _ _, .pwr v => some { s with val := v }
  | .dIn c j, .uce j' r =>
      if j' = j then some ({ s with out := upd s.out j (some (.val r)) }.setPc t (.dRun c)) else none
  | .dIn c j, .uth j' =>
      if j' = j then some ({ s with out := upd s.out j (some .exc) }.setPc t (.dRun c)) else none
  -- the caller's own function on the direct path
  | .aIn _ _, .prd v => if v = s.val then some s else none
  | .aIn _ _, .pwr v => some { s with val := v }
  | .aIn k a, .uce k' r =>
      if k' = k then some ({ s with out := upd s.out k (some (.val r)) }.setPc t (.mUnl k a false)) else none
  | .aIn k a, .uth k' =>
      if k' = k then some ({ s with out := upd s.out k (some .exc) }.setPc t (.mUnl k a (!a))) else none
  | .mUnl k a thrown, .mul => if s.mx = some t then some ({ s with mx := none }.setPc t (.mRet k a thrown)) else none
  -- shared acquisition
  | .sAcq c, .slk =>
      if (c = .load ∨ c = .acq .block) ∧ s.mx = none then some ({ s with sh := t :: s.sh }.setPc t c.granted) else none
  | .sAcq (.acq .try_), .stl ok =>
      if ok then (if s.mx = none then some ({ s with sh := t :: s.sh }.setPc t (.sGot true)) else none)
      else some (s.setPc t (.sGot false))
  | .sAcq (.acq h), .stf ok =>
      if h = .for_ ∨ h = .until_ then
        (if ok then (if s.mx = none then some ({ s with sh := t :: s.sh }.setPc t (.sGot true)) else none)
         else some (s.setPc t (.sGot false)))
      else none
  | .sGot ok, .got b => if b = ok then some (s.setPc t (.idle ok)) else none
  -- load(): copy under the shared lock
  | .ldHold _, .prd v => if v = s.val then some s else none
  | .ldHold thrown, .uth _ => if thrown = false then some (s.setPc t (.ldHold true)) else none
  | .ldHold thrown, .sul => if t ∈ s.sh then some ({ s with sh := s.sh.erase t }.setPc t (.ldRet thrown)) else none
  | .ldRet thrown, .ret => if thrown = false then some (s.setPc t (.idle false)) else none
  | .ldRet thrown, .exc => if thrown = true then some (s.setPc t (.idle false)) else none
  | _, _ => none

def run (spur : Bool) (es : List (Tid × Ev)) : Option St := runFrom step (init spur) es

def Reachable (spur : Bool) (s : St) : Prop := ∃ es, run spur es = some s

end ConcVerif.Deferred
